#!/usr/bin/env python3
"""Regenerates MANIFEST.json from checks.py and the claim texts below."""
import json, subprocess, sys
sys.path.insert(0, "/verif")
import checks

props = [json.loads(l) for l in open("/verif/properties.jsonl")]
ids = [p["id"] for p in props]

TEXT = {
 "C01": ("model_checking", "7 C01", "Bounded: kernel lemmas on the real Go code from symbolic pre-states (one lz77 iteration with a symbolic window and an arbitrary table entry; distance-symbol arithmetic for every distance; WriteBit/Sync from an arbitrary accumulator; one encoded token with arbitrary code-table entries) plus solver-split operation sequences (K<=3/4) on real Writers whose output is decoded by a reference inflater. Not an end-to-end proof: the composition of the lemmas is argued in DESIGN.md, assembly kernels are outside.",
         "portable Go paths (noasmtest); data of operation sequences is concrete; Huffman code generation only exercised through those sequences"),
 "C02": ("model_checking", "7 C02", "Bounded: fastgo's Reader against a reference inflater (itself cross-checked against the real compress/flate executed symbolically) on N symbolic bytes placed in concrete contexts: stream start, after 300 bytes of output, mid-byte after a fixed block, as payload of concrete dynamic headers (templates incl. 15-bit codes, single/none distance code, long distance codes, RLE crossing the literal/distance boundary), and as second block after a complete dynamic block.",
         "window N=2..3 bytes, output of the window <= M=16 bytes, destination size B; dynamic headers inside the symbolic window are outside the claim"),
 "C03": ("model_checking", "7 C03", "Same exploration as C02 with the malformed-input assertions: no panic / no access outside an allocation on any path, progress, no false io.EOF, every delivered byte equals the permissive reference's byte, truncation ends in io.ErrUnexpectedEOF, corrupt input in CorruptInputError (or unexpected EOF), error is sticky.",
         "as C02; reuse-after-other-streams is covered by the C13 harness"),
 "C04": ("model_checking", "7 C04", "Relational, bounded: the same symbolic stream is decoded from one piece and through a chunking source (1 byte/call, 3 bytes/call, one symbolic split point, data together with io.EOF) behind bufio sizes 16/17/64, with destination sizes 64 and 1; bytes and final error kind must agree.",
         "split point within the window and 3 bytes before it; contexts as C02"),
 "C05": ("model_checking", "7 C05", "Bounded: for every complete stream in the window contexts followed by 3 symbolic bytes, after io.EOF the bytes still readable from the source are exactly those 3 bytes, for 8 source kinds x {NewReader, Reset}; gzip one level up by comparing the logical source position with compress/gzip's Reader (C08 harness).",
         "non-bufio ByteReader sources are a recorded known finding (read-ahead by design of the Reader)"),
 "C06": ("model_checking", "7 C06", "Differential, bounded: fastgo's and the standard library's gzip/zlib Writers on the same symbolic header fields (name/comment bytes, extra, mtime, OS) and operation patterns; their Readers on the same symbolic header / container bytes. Level 0 output compared byte for byte with a symbolic payload, other levels header+trailer.",
         "CRC-32/Adler-32 are uninterpreted folds; payload interop beyond stored blocks rests on C01/C02"),
 "C07": ("model_checking", "7 C07", "Bounded: one gzip/zlib member with a symbolic DEFLATE payload (reference says complete), a symbolic trailer, cut at a symbolic point: io.EOF implies fold(delivered bytes)==trailer checksum and size; truncation ends in io.ErrUnexpectedEOF with only a prefix of the payload delivered and a correct byte count.",
         "checksums uninterpreted (counterexamples must reproduce natively)"),
 "C08": ("model_checking", "7 C08", "Differential, bounded: 1-3 concatenated members with symbolic trailers and symbolic trailing garbage, default mode and Multistream(false)+Reset, against compress/gzip's Reader on the same bytes (bytes, error kinds, logical source position).",
         "member payloads are concrete stored blocks"),
 "C09": ("model_checking", "7 C09", "Relational, bounded: the same data and Flush position, written in one piece vs split at every point p (symbolic, solver-split) with an extra zero-length Write; outputs must be identical.",
         "dynCompressor instances with window W=16 (same parametric code), L=700 bytes; production windows only in the thorough Huffman-only run"),
 "C10": ("model_checking", "7 C10", "Bounded: after every successful Flush in solver-split operation sequences the emitted bytes decode (reference inflater) to all data written and then need more input exactly at the end; kernel lemmas for flushLastByte / sync marker from an arbitrary accumulator state.",
         "as C16"),
 "C11": ("model_checking", "7 C11", "Bounded: the source delivers everything up to a sync point / the stream end and then raises a would-block marker; asserted that all data before the gate was handed out first, and io.EOF without asking again.",
         "blocking is modelled as a reachability event"),
 "C12": ("model_checking", "7 C12", "Bounded: history h1 (solver-split operations, optionally on a failing destination), Reset, history h2 -- output and error-ness identical to a new Writer doing h2.",
         "K1=2..3, K2=2; settings Huffman-only and W=16 instances of levels 1, 2"),
 "C13": ("model_checking", "7 C13", "Inductive step: Reset from an arbitrary Reader state inside a written representation invariant (symbolic scalars, symbolic history bytes, stale tables, old error), then the same symbolic window decoded by the reset and by a new Reader; zlib Reset(r, dict) against NewReaderDict.",
         "write position classes {0,300,32K,64K,64K+284}+0..3; window N=2"),
 "C14": ("model_checking", "7 C14", "Bounded: destination fails at its k-th call (k symbolic) during solver-split operation sequences: failing operation returns that error, later operations fail without touching the destination, no panic / out-of-allocation store; fault-free runs yield a complete stream.",
         "K=3..4 operations"),
 "C15": ("model_checking", "7 C15", "Bounded: source fails after k bytes (k symbolic over the stream) with a distinct error, alone or with the last bytes: that error is returned (identity), output is a prefix of the reference output, error sticky.",
         "contexts fresh/fixed300/dynT2; 16-byte bufio"),
 "C16": ("model_checking", "7 C16", "Bounded: every sequence of K operations over {Write(0), Write(5), Write(>buffer), Flush, Close, Reset} (symbolic, solver-split): error-ness equals compress/flate's automaton (checked against the real stdlib Writer by the engine), no panic, bytes up to the first Close are a complete stream.",
         "K=2..4; constructors' level validation is covered by the C06 harnesses (level-accept)"),
 "C17": ("other", "7 C17", checks.CHECKS["C17"]["explanation"], "assembly footprints and the scheduler are outside; see explanation"),
 "C18": ("model_checking", "7 C18 / 3", "Decode direction, bounded: the same symbolic window (inside a block followed by >= 40 concrete bytes, so that the assembly fast path is entered) is decoded at acceleration level 0 and at level 3, where decodeHuffmanAsmArchV3 is executed symbolically from the current decode_amd64.s by the engine's assembly executor (memory operands resolved against the Go struct layout); bytes, outcome kind and source position must agree. Compression-side assembly is outside.",
         "asmsym covers the 33 mnemonics of decode_amd64.s; flags modelled as last compare/result; contexts: fixed block at stream start and after 300 bytes, dynamic templates 2 and 5; N=1..2"),
 "C19": ("model_checking", "7 C19", "Bounded: one real lz77 iteration from an arbitrary state gives D <= historySize for historySize 4096, 32768 (and 8), including wrapped 16-bit positions; distance symbol+extra reconstructs D for every D; 4K-window Writers in operation sequences never exceed 4096 (reference inflater's max distance).",
         "assembly match finders are outside (they are not executed under noasmtest)"),
}

NA = {
 "C20": "whole-stream size bounds need a whole-pipeline / 64Ki-iteration LZ77 symbolic run (DESIGN.md 2.3); no solver-decidable condition implied by the property was found that would not also alarm on code for which the property holds",
}

claimed = [p for p in ids if p in TEXT and p in checks.CHECKS and p not in sys.argv[1:]]
m = {
 "version": 1,
 "setup_cmd": "cd /verif && ./vcheck build",
 "hooks": {"guard": "verif", "enable": "go build -tags verif (harnesses are injected with -overlay, nothing else is written to /repo)",
           "baseline_off_cmd": "cd /repo && GOFLAGS=-mod=mod GOPROXY=off GOSUMDB=off go test -vet=off -count=1 ./...",
           "source_commits": subprocess.run(["git", "-C", "/repo", "log", "--format=%h %s", "--grep=verif hooks"], capture_output=True, text=True).stdout.strip().split("\n"),
           "add_only": True},
 "engines": [{"name": "gosym", "path": "/verif/engine", "serves_properties": claimed,
              "kind_free_text": "path-exploring symbolic executor for go/ssa (x/tools v0.29.0) written for this task: byte-granular memory, bit-vector terms, constant tables as LSB-first decision trees, concolic exploration with one divergence query per path, z3 5.1.0 over a pipe (z3 4.8.12 fallback); counterexamples and path witnesses replayed natively through go test -overlay"}],
 "checks": [], "not_applicable": [],
 "notes": "vcheck exit codes: 0 held (KNOWN-FINDING lines allowed), 1 VIOLATION, 2 INCONCLUSIVE (never reported as success). Known findings: /verif/known_findings.jsonl. Seeded changes: /verif/seeded/.",
}
for p in ids:
    if p in claimed:
        cat, ref, text, note = TEXT[p]
        m["checks"].append({"property_id": p, "quick_cmd": "cd /verif && ./vcheck run %s --tier quick" % p,
                            "thorough_cmd": "cd /verif && ./vcheck run %s --tier thorough" % p,
                            "evidence_file": "/verif/evidence/%s.json" % p, "replay_cmd_template": "cd /verif && ./vcheck replay {path}", "engine": "gosym",
                            "level_claimed": {"category": cat, "text": text, "design_ref": "DESIGN.md section " + ref},
                            "level_note": note + "; trusted base: go/ssa construction, the gosym encoder (validated on every run by native replay of path witnesses), z3",
                            "technique": "bounded symbolic execution of the real Go code (go/ssa -> SMT-LIB2 bit-vectors, z3), counterexamples replayed natively"})
    else:
        m["not_applicable"].append({"property_id": p, "reason": NA.get(p, "check not yet registered: its bounds have not run clean on the unchanged tree in this session")})
json.dump(m, open("/verif/MANIFEST.json", "w"), indent=1)
print("claimed:", claimed)
