"""Per-property run tables for vcheck (see DESIGN.md section 7)."""

FLATE = "github.com/intel/fastgo/compress/flate"
GZIP = "github.com/intel/fastgo/compress/gzip"
ZLIB = "github.com/intel/fastgo/compress/zlib"
DEFLATE = "github.com/intel/fastgo/compress/flate/internal/deflate"
HUFFMAN = "github.com/intel/fastgo/compress/flate/internal/huffman"

COMMON_ASSUMPTIONS = [
    "gosym: bounded symbolic execution of go/ssa (x/tools v0.29.0) built from /repo's working tree with -tags verif,noasmtest unless stated; paths decided by z3 5.1.0 (z3-new)",
    "amd64 layout (types.SizesFor gc/amd64); Go integers as bit-vectors of their real width",
    "trusted models: math/bits scans as ite chains; crc32/adler32 as uninterpreted folds; fmt.* as opaque; sync.Once as run-once; append growth doubles capacity",
    "symbolic shift amounts, slice bounds and large-array indices are case-split by the solver (sound; bounded by -maxconc, exceeding it is INCONCLUSIVE)",
    "dynamic-header tables are only built from concrete template headers; a dynamic block header starting inside the symbolic window is outside the claim (Assume)",
]


def rd(ctx, N, M=16, B=4, K=1, qN=None, tiers=("quick", "thorough"), labels=None, covers=(), harness="VerifRdOracle", extra=None, tN=None):
    r = {"pkg": FLATE, "harness": harness, "picks": {"ctx": ctx}, "params": {"M": M, "B": B, "K": K, "N": N},
         "tiers": list(tiers), "labels": labels, "covers": list(covers)}
    r["params"]["S"] = 0
    r["params"]["B2"] = 1
    if tN is not None:
        r["thorough"] = {"N": tN}
    if extra:
        r["params"].update(extra)
    return r


RD_CONTEXTS_Q = [(0, 3), (1, 2), (2, 2), (11, 2), (12, 2), (13, 2), (16, 2), (17, 2), (52, 2)]

def rdp(harness, ctx, N, picks, labels, covers=(), M=16, tiers=("quick", "thorough"), extra=None):
    r = rd(ctx, N, M=M, labels=labels, covers=covers, harness=harness, tiers=tiers, extra=extra)
    r["picks"].update(picks)
    return r


CHECKS = {
    "C02": {
        "level": "model_checking",
        "runs": [rd(c, n, labels=["C02:"], covers=["complete"] if c != 17 else []) for c, n in RD_CONTEXTS_Q],
        "assumptions": ["oracle: reference inflater (harness/common/zz_verif_ref.go.tmpl, strict mode) cross-checked on every path against the real compress/flate executed symbolically on the same bytes (REF:* assertions)",
                        "window harness: stream = concrete context prefix ++ N symbolic bytes ++ suffix; output of the window bounded by M bytes (longer outputs are cut by Assume)"],
    },
    "C03": {
        "level": "model_checking",
        "runs": [rd(c, n, labels=["C03:"], covers=["truncated"]) for c, n in RD_CONTEXTS_Q],
        "assumptions": ["oracle: reference inflater strict + permissive; stdlib compress/flate executed symbolically for error kinds",
                        "every implicit Go panic (index, slice bounds, nil, negative shift, divide) and every access outside an allocation is a forked branch whose failing side is reported"],
    },
    "C04": {
        "level": "model_checking",
        "runs": [rdp("VerifRdChunk", c, n, {"chunk": ch, "bufio": b}, ["C04:"], ["ran"])
                 for (c, n, ch, b) in [(0, 3, 0, 0), (0, 3, 1, 1), (0, 3, 2, 0), (1, 2, 3, 1), (2, 2, 0, 0), (11, 2, 1, 0), (12, 2, 0, 1), (52, 2, 1, 0)]],
        "assumptions": ["relational harness: the same symbolic stream decoded once from one piece and once through a chunking source behind bufio.NewReaderSize(16|17|64|4096), destination sizes 64 vs B2"],
    },
    "C05": {
        "level": "model_checking",
        "runs": [rdp("VerifRdPos", c, n, {"src": k, "ctor": ct}, ["C05:"], ["eof"])
                 for (c, n) in [(0, 3), (2, 2), (32, 2)] for k in range(8) for ct in (0, 1)],
        "assumptions": ["source kinds: bufio 16/64/4096/8192, bytes.Reader, bytes.Buffer, strings.Reader, custom ByteReader; constructors NewReader and NewReader+Reset; 3 symbolic bytes follow the stream"],
    },
    "C11": {
        "level": "model_checking",
        "runs": [rdp("VerifRdGate", c, n, {"bufio": b}, ["C11:"], []) for (c, n) in [(0, 3), (1, 2), (12, 2)] for b in (0, 2)],
        "assumptions": ["'blocks forever' is modelled as the reachability event 'source asked for more after it delivered everything up to the gate' (source returns a marker error)"],
    },
    "C13": {
        "level": "model_checking",
        "runs": [rdp("VerifRdReset", c, n, {"olderr": oe, "wp": wp}, ["C13:"], ["ran"]) for (c, n) in [(0, 2)] for oe in (0, 1) for wp in range(5)],
        "assumptions": ["inductive step: Reset from an arbitrary state inside the written invariant InvRd (symbolic scalars, symbolic history bytes around the positions, stale tables), not from enumerated histories"],
    },
    "C15": {
        "level": "model_checking",
        "runs": [rdp("VerifRdFail", c, n, {"with": w}, ["C15:"], ["faulted"]) for (c, n) in [(0, 3), (1, 2), (12, 2)] for w in (0, 1)],
        "assumptions": ["source model: delivers k bytes (k symbolic, solver case-split over the whole stream) then a distinct error value, alone or together with the last bytes, behind a 16-byte bufio.Reader"],
    },
}
