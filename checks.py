"""Per-property run tables for vcheck (see DESIGN.md section 7)."""

FLATE = "github.com/intel/fastgo/compress/flate"
GZIP = "github.com/intel/fastgo/compress/gzip"
ZLIB = "github.com/intel/fastgo/compress/zlib"
DEFLATE = "github.com/intel/fastgo/compress/flate/internal/deflate"
HUFFMAN = "github.com/intel/fastgo/compress/flate/internal/huffman"

COMMON_ASSUMPTIONS = [
    "gosym: bounded symbolic execution of go/ssa (x/tools v0.29.0) built from /repo's working tree with -tags verif,noasmtest unless stated; paths decided by z3 5.1.0 (z3-new)",
    "amd64 layout (types.SizesFor gc/amd64); Go integers as bit-vectors of their real width",
    "trusted models: math/bits scans as ite chains; crc32/adler32 as uninterpreted folds; fmt.* as opaque; sync.Once as run-once; append growth doubles capacity",
    "symbolic shift amounts, slice bounds and large-array indices are case-split by the solver (sound; bounded by -maxconc, exceeding it is INCONCLUSIVE)",
    "dynamic-header tables are only built from concrete template headers; a dynamic block header starting inside the symbolic window is outside the claim (Assume)",
]


def rd(ctx, N, M=16, B=4, K=1, qN=None, tiers=("quick", "thorough"), labels=None, covers=(), harness="VerifRdOracle", extra=None, tN=None):
    r = {"pkg": FLATE, "harness": harness, "picks": {"ctx": ctx}, "params": {"M": M, "B": B, "K": K, "N": N},
         "tiers": list(tiers), "labels": labels, "covers": list(covers)}
    r["params"]["S"] = 0
    r["params"]["B2"] = 1
    r["params"]["SPLITBACK"] = 3
    r["params"]["TAIL"] = 0
    r["params"]["TAILLO"] = 0
    r["params"]["WRAPEOF"] = 0
    r["params"]["LITCAP"] = 0
    r["params"]["ONLY"] = 2 if labels and "C02:" in labels else 0
    r["params"]["HL"] = 0
    r["params"]["REUSE"] = 0
    r["params"]["BLO"] = 0
    r["params"]["BCOUNT"] = 1
    r["params"]["BSTEP"] = 8
    r["params"]["CONC"] = 0
    r["params"]["BHI"] = 0
    r["params"]["HD"] = 0
    if tN is not None:
        r["thorough"] = {"N": tN}
    elif harness == "VerifRdOracle":
        # thorough: the real compress/flate runs on the same bytes too (REF:* assertions)
        r["thorough"] = {"S": 1}
    if extra:
        r["params"].update(extra)
    return r


RD_CONTEXTS_Q = [(0, 3), (1, 2), (2, 2), (3, 2), (6, 1), (4, 6), (5, 5), (7, 7), (8, 7), (9, 7), (11, 2), (12, 2), (16, 2), (17, 2), (24, 2), (25, 1), (26, 1), (52, 2), (57, 2), (60, 2)]

def rdp(harness, ctx, N, picks, labels, covers=(), M=16, tiers=("quick", "thorough"), extra=None):
    r = rd(ctx, N, M=M, labels=labels, covers=covers, harness=harness, tiers=tiers, extra=extra)
    r["picks"].update(picks)
    return r


# thorough-only contexts: longer windows, more templates (15-bit codes, long distance codes, final-block placements)
RD_CONTEXTS_T = [(0, 4), (1, 3), (2, 3), (13, 1), (15, 2), (31, 2), (32, 3), (36, 2), (44, 2), (59, 2)]

CHECKS = {
    "C02": {
        "level": "model_checking",
        "runs": [rd(c, n, labels=["C02:", "REF:"], covers=["complete"] if c not in (3, 6, 8, 17, 25, 26, 57, 60) else []) for c, n in RD_CONTEXTS_Q] +
                [rd(6, 2, K=k, labels=["C02:", "REF:"]) for k in (0, 2, 3)] +
                [rd(27, 3, M=300, labels=["C02:", "REF:"], covers=["complete"], extra={"LITCAP": 2})] +
                [rd(47, 5, M=300, labels=["C02:", "REF:"], covers=["complete"], extra={"LITCAP": 1})] +
                [rd(c, n, labels=["C02:", "REF:"], tiers=["thorough"]) for c, n in RD_CONTEXTS_T],
        "assumptions": ["oracle: reference inflater (harness/common/zz_verif_ref.go.tmpl, strict mode) cross-checked on every path against the real compress/flate executed symbolically on the same bytes (REF:* assertions)",
                        "window harness: stream = concrete context prefix ++ N symbolic bytes ++ suffix; output of the window bounded by M bytes (longer outputs are cut by Assume)"],
    },
    "C03": {
        "level": "model_checking",
        "runs": [rd(c, n, labels=["C03:"], covers=["truncated"] if c not in (8, 25, 26, 60) else [], tiers=["thorough"] if c in (7, 8) else ["quick", "thorough"]) for c, n in RD_CONTEXTS_Q] +
                [rd(c, 6, labels=["C03:"], tiers=["quick"]) for c in (7, 8)] +
                [rd(6, 2, K=k, labels=["C03:"]) for k in (0, 2, 3)] +
                [rd(27, 3, M=300, labels=["C03:"], extra={"LITCAP": 2})] +
                [rd(47, 5, M=300, labels=["C03:"], extra={"LITCAP": 1})] +
                [rd(c, n, labels=["C03:"], tiers=["thorough"]) for c, n in RD_CONTEXTS_T] +
                [rdp("VerifRdReset", 0, 2, {"olderr": oe, "wp": wp}, ["C13:"], ["ran"]) for (oe, wp) in [(0, 1), (1, 3)]],
        "assumptions": ["oracle: reference inflater strict + permissive; stdlib compress/flate executed symbolically for error kinds",
                        "every implicit Go panic (index, slice bounds, nil, negative shift, divide) and every access outside an allocation is a forked branch whose failing side is reported"],
    },
    "C04": {
        "level": "model_checking",
        "runs": [rdp("VerifRdChunk", c, n, {"chunk": ch, "bufio": b}, ["C04:"], ["ran"])
                 for (c, n, ch, b) in [(0, 3, 0, 0), (0, 3, 1, 1), (0, 3, 2, 0), (1, 2, 3, 1), (2, 2, 0, 0), (11, 2, 1, 0), (12, 2, 0, 1), (52, 2, 1, 0), (82, 1, 2, 0), (82, 1, 3, 1), (4, 6, 3, 0)]] +
                [rdp("VerifRdChunk", 82, 1, {"chunk": 1, "bufio": b}, ["C04:"], ["ran"], extra={"SPLITBACK": 100}) for b in (0, 2)] +
                [rdp("VerifRdChunk", 6, 2, {"chunk": 0, "bufio": 0}, ["C04:"], ["ran"], extra={"K": k}) for k in (0, 1)] +
                [rdp("VerifRdChunk", 6, 2, {"chunk": 1, "bufio": b}, ["C04:"], ["ran"], tiers=["thorough"], extra={"K": k}) for (k, b) in [(0, 0), (1, 1), (2, 2)]] +
                [rdp("VerifRdChunk", 3, 2, {"chunk": 1, "bufio": b}, ["C04:"], ["ran"], tiers=["thorough"], extra={"K": k}) for (k, b) in [(1, 0), (2, 3)]],
        "assumptions": ["relational harness: the same symbolic stream decoded once from one piece and once through a chunking source behind bufio.NewReaderSize(16|17|64|4096), destination sizes 64 vs B2"],
    },
    "C05": {
        "level": "model_checking",
        "runs": [rdp("VerifRdPos", c, n, {"src": k, "ctor": ct}, ["C05:"], ["eof"])
                 for (c, n) in [(0, 3), (2, 2), (32, 2)] for k in range(8) for ct in (0, 1)] +
                [rdp("VerifRdPos", c, n, {"src": k, "ctor": ct}, ["C05:"], ["eof"]) for (c, n) in [(4, 6), (5, 6)] for (k, ct) in [(0, 1), (1, 0), (2, 0), (3, 1)]],
        "assumptions": ["source kinds: bufio 16/64/4096/8192, bytes.Reader, bytes.Buffer, strings.Reader, custom ByteReader; constructors NewReader and NewReader+Reset; 3 symbolic bytes follow the stream"],
    },
    "C11": {
        "level": "model_checking",
        "runs": [rdp("VerifRdGate", c, n, {"bufio": b}, ["C11:"], []) for (c, n) in [(0, 3), (1, 2), (12, 2)] for b in (0, 2)],
        "assumptions": ["'blocks forever' is modelled as the reachability event 'source asked for more after it delivered everything up to the gate' (source returns a marker error)"],
    },
    "C13": {
        "level": "model_checking",
        "runs": [rdp("VerifRdReset", c, n, {"olderr": oe, "wp": wp}, ["C13:"], ["ran"]) for (c, n) in [(0, 2)] for oe in (0, 1) for wp in range(5)] +
                [rdp("VerifRdReset", 12, 1, {"olderr": 0, "wp": wp}, ["C13:"], ["ran"]) for wp in (0, 1)],
        "assumptions": ["inductive step: Reset from an arbitrary state inside the written invariant InvRd (symbolic scalars, symbolic history bytes around the positions, stale tables), not from enumerated histories"],
    },
    "C15": {
        "level": "model_checking",
        "runs": [rdp("VerifRdFail", c, n, {"with": w}, ["C15:"], ["faulted"]) for (c, n) in [(0, 3), (1, 2), (12, 2)] for w in (0, 1)],
        "assumptions": ["source model: delivers k bytes (k symbolic, solver case-split over the whole stream) then a distinct error value, alone or together with the last bytes, behind a 16-byte bufio.Reader"],
    },
}


def wr(harness, picks, params, labels, covers=(), tiers=("quick", "thorough"), thorough=None, validate_quick=25):
    r = {"pkg": DEFLATE, "harness": harness, "picks": dict(picks), "params": dict(params), "tiers": list(tiers), "labels": labels, "maxconc": 1500,
         "covers": list(covers), "validate_quick": validate_quick, "validate_thorough": 300}
    if thorough:
        r["thorough"] = thorough
    return r


def wr_seq(labels):
    return [wr("VerifWrSeq", {"setting": 5}, {"K": 3, "W": 16, "HUGE": 0, "HUGESZ": 0, "BIGEXACT": 0, "FAR": 0}, labels, ["close", "flush"], thorough={"K": 4}),
            wr("VerifWrSeq", {"setting": 5}, {"K": 2, "W": 16, "HUGE": 1, "HUGESZ": 32800, "BIGEXACT": 0, "FAR": 0}, labels, ["close", "flush", "huge"], thorough={"K": 3}),
            wr("VerifWrSeq", {"setting": 6}, {"K": 2, "W": 16, "HUGE": 1, "HUGESZ": 32950, "BIGEXACT": 0, "FAR": 0}, labels, ["close", "flush", "huge"], tiers=["thorough"]),
            wr("VerifWrSeq", {"setting": 5}, {"K": 2, "W": 16, "HUGE": 1, "HUGESZ": 32767, "BIGEXACT": 0, "FAR": 0}, labels, ["close", "flush", "huge"], tiers=["thorough"]),
            wr("VerifWrSeq", {"setting": 6}, {"K": 3, "W": 16, "HUGE": 0, "HUGESZ": 0, "BIGEXACT": 0, "FAR": 0}, labels, ["close", "flush"], thorough={"K": 4}),
            wr("VerifWrSeq", {"setting": 0}, {"K": 3, "W": 16, "HUGE": 0, "HUGESZ": 0, "BIGEXACT": 0, "FAR": 0}, labels, ["close", "flush"]),
            wr("VerifWrSeq", {"setting": 3}, {"K": 2, "W": 16, "HUGE": 0, "HUGESZ": 0, "BIGEXACT": 0, "FAR": 0}, labels, ["close", "flush"], thorough={"K": 3}),
            wr("VerifWrSeq", {"setting": 0}, {"K": 2, "W": 16, "HUGE": 0, "HUGESZ": 0, "BIGEXACT": 1, "FAR": 0}, labels, ["close", "flush"], thorough={"K": 3}),
            wr("VerifWrSeq", {"setting": 5}, {"K": 3, "W": 16, "HUGE": 0, "HUGESZ": 0, "BIGEXACT": 1, "FAR": 0}, labels, ["close", "flush"]),
            wr("VerifWrSeq", {"setting": 3}, {"K": 3, "W": 16, "HUGE": 0, "HUGESZ": 0, "BIGEXACT": 0, "FAR": 1}, labels, ["close", "flush"]),
            wr("VerifWrSeq", {"setting": 4}, {"K": 3, "W": 16, "HUGE": 0, "HUGESZ": 0, "BIGEXACT": 0, "FAR": 1}, labels, ["close", "flush"], tiers=["thorough"]),
            wr("VerifWrSeq", {"setting": 5}, {"K": 3, "W": 16, "HUGE": 0, "HUGESZ": 0, "BIGEXACT": 0, "FAR": 1}, labels, ["close", "flush"]),
            wr("VerifWrSeq", {"setting": 1}, {"K": 2, "W": 16, "HUGE": 0, "HUGESZ": 0, "BIGEXACT": 0, "FAR": 0}, labels, ["close", "flush"], tiers=["thorough"]),
            wr("VerifWrSeq", {"setting": 4}, {"K": 2, "W": 16, "HUGE": 0, "HUGESZ": 0, "BIGEXACT": 0, "FAR": 0}, labels, ["close", "flush"], tiers=["thorough"])]


def kernels(labels, which):
    runs = []
    if "dist" in which:
        runs.append(wr("VerifKDist", {}, {}, labels, ["ran"]))
    if "bitbuf" in which:
        runs += [wr("VerifKBitBuf", {"fn": f}, {}, labels, ["ran"]) for f in (0, 1)]
    if "marker" in which:
        runs += [wr("VerifKBitBuf", {"fn": f}, {}, labels, ["ran"]) for f in (2, 3)]
    if "enc" in which:
        runs += [wr("VerifKEncToken", {"match": m, "lc": lc, "dc": dc, "idx": ix}, {}, labels, ["ran"])
                 for (m, lc, dc, ix) in [(1, 3, 2, 1), (1, 0, 0, 2), (0, 2, 0, 0), (1, 1, 1, 0)]]
        runs += [wr("VerifKEncToken", {"match": m, "lc": lc, "dc": dc, "idx": ix}, {}, labels, ["ran"], tiers=["thorough"])
                 for m in (0, 1) for lc in range(4) for dc in range(3) for ix in range(3) if not (m == 0 and (lc == 3 or dc != 0))]
    if "lz77" in which:
        runs += [wr("VerifKLz77Step", {"level": lv, "window": wn, "flush": fl}, {"B": b, "OFF": off}, labels, ["literal", "match"], thorough={"B": b + 8})
                 for (lv, wn, fl, b, off) in [(0, 2, 0, 24, 8), (1, 2, 1, 24, 9), (0, 0, 0, 24, 10), (1, 1, 1, 28, 10), (0, 1, 1, 24, 3)]]
    return runs


CHECKS.update({
    "C16": {"level": "model_checking", "runs": wr_seq(["C16:", "C01:"]) + [wr("VerifStdAutomaton", {}, {"K": 3}, ["REF:"])],
            "assumptions": ["operation sequences of length K over {Write(0), Write(5), Write(> internal buffer), Flush, Close, Reset}: each operation is a symbolic value case-split by the solver; data is a fixed pseudo-random pattern (the property is about call sequences, not content)",
                            "expected error-ness per call = automaton open/closed of compress/flate's Writer, itself checked against the real stdlib Writer executed by the engine (VerifStdAutomaton)",
                            "settings 5/6 use the internal constructor NewDynCompressor with window W=16: the same parametric Accumulate/compress code at a size where filling the buffer costs 300 bytes instead of 8K/64K"]},
    "C10": {"level": "model_checking", "runs": wr_seq(["C10:"]) + kernels(["C10:"], ["marker"]),
            "assumptions": ["flush decoding oracle: reference inflater must return all data written so far, then need-more-input exactly at the end of the emitted bytes",
                            "kernel lemmas: flushLastByte / writeEmptyBlock from an arbitrary accumulator (bitLen 0..64 symbolic)"]},
    "C01": {"level": "model_checking", "runs": kernels(["C01:"], ["dist", "bitbuf", "enc", "lz77"]) + wr_seq(["C01:"]) +
                    [wr("VerifWrGaps", {"setting": st}, {"W": 16, "XLO": lo, "XHI": hi, "LEN": 40, "HUGE": 0, "HUGESZ": 0, "BIGEXACT": 0, "FAR": 0}, ["C01:"], ["closed"]) for (st, lo, hi) in [(0, 0, 0), (5, 97, 97), (0, 100, 101)]] +
                    [wr("VerifWrGaps", {"setting": st}, {"W": 16, "XLO": 0, "XHI": 255, "LEN": 40, "HUGE": 0, "HUGESZ": 0, "BIGEXACT": 0, "FAR": 0}, ["C01:"], ["closed"], tiers=["thorough"]) for st in (0, 5, 6)],
            "assumptions": ["C01 is decided as kernel lemmas on the real code from symbolic pre-states (one lz77 step, token packing, bit packing) plus bounded operation sequences with concrete data decoded by the reference inflater; the composition argument (DESIGN.md C01) is not mechanised",
                            "assembly encoders / LZ77 kernels (acceleration levels 1..4) are outside the encoder; portable Go paths (noasmtest) are what is executed"]},
    "C19": {"level": "model_checking", "runs": kernels(["C19:"], ["dist", "lz77"]) + [r for r in wr_seq(["C19:"]) if r["picks"]["setting"] in (3, 4, 5)],
            "assumptions": ["one lz77 step from an arbitrary state: D <= historySize for historySize in {8, 4096, 32768}; positions may have wrapped (processed up to 2^18)"]},
    "C14": {"level": "model_checking",
            "runs": [wr("VerifWrFail", {"setting": st, "recover": rc}, {"K": 3, "W": 16, "KMAX": km, "HUGE": 0, "HUGESZ": 0, "BIGEXACT": 0, "FAR": 0}, ["C14:"], ["failure-reported", "op-after-failure"], thorough={"K": 4})
                     for (st, km) in [(5, 6), (6, 6), (0, 4), (3, 4)] for rc in (0, 1)] +
                    [wr("VerifWrFail", {"setting": 5, "recover": rc}, {"K": 2, "W": 16, "KMAX": 8, "HUGE": 1, "HUGESZ": 36000, "BIGEXACT": 0, "FAR": 0}, ["C14:"], ["failure-reported", "huge"], thorough={"K": 3}) for rc in (0, 1)],
            "assumptions": ["destination model: fails at its k-th call (k symbolic) with a distinct error value, then either keeps failing or recovers (accepts data again)"]},
    "C12": {"level": "model_checking",
            "runs": [wr("VerifWrReset", {"setting": st, "oldfails": of}, {"K1": 2, "K2": 2, "W": 16, "BIGEXACT": 0, "REPLAY": 0}, ["C12:"], ["compared"], thorough={"K1": 3})
                     for st in (5, 6, 0) for of in (0, 1)],
            "assumptions": ["histories h1 (K1 operations) and h2 (K2 operations) are symbolic operation sequences case-split by the solver; content fixed"]},
    "C09": {"level": "model_checking",
            "runs": [wr("VerifWrPartition", {"setting": st}, {"W": 16, "L": L, "F": F, "PLO": 0, "PHI": L, "BIGEXACT": 0}, ["C09:"], ["compared"])
                     for (st, L, F) in [(5, 700, 0), (6, 700, 0), (5, 700, 40), (5, 700, 150), (6, 700, 289)]] +
                    [wr("VerifWrPartition", {"setting": 0}, {"W": 16, "L": 70000, "F": 0, "PLO": lo, "PHI": hi, "BIGEXACT": 0}, ["C09:"], ["compared"], tiers=tiers)
                     for (lo, hi, tiers) in [(65530, 65545, ["quick", "thorough"]), (0, 40, ["thorough"]), (65000, 66000, ["thorough"])]],
            "assumptions": ["relational: the same concrete data with the same Flush position, written in one piece vs split at a symbolic point p (every p in [F, L], case-split by the solver) with an extra zero-length Write",
                            "window W=16 instances of the parametric dynCompressor (buffer 2W+261 bytes); W in {4096, 32768} is not explored for every split point"]},
})


def gz(harness, picks, params, labels, covers=(), pkg=GZIP, tiers=("quick", "thorough"), thorough=None, validate=True):
    r = {"pkg": pkg, "harness": harness, "picks": dict(picks), "params": dict(params), "tiers": list(tiers), "labels": labels,
         "covers": list(covers), "validate": validate}
    if thorough:
        r["thorough"] = thorough
    return r


GZ_WRITE = [gz("VerifGzWrite", {"level": lv, "ops": ops, "extra": ex}, {"NAME": nm, "COMMENT": cm, "EXTRA": 1, "P": p}, ["C06:"], ["written"])
            for (lv, ops, ex, nm, cm, p) in [(0, 0, 1, 1, 1, 2), (0, 1, 0, 2, 0, 2), (0, 2, 0, 0, 1, 0), (0, 3, 1, 1, 0, 2), (1, 1, 0, 1, 1, 4), (2, 0, 1, 0, 0, 4), (3, 1, 0, 1, 0, 4), (0, 4, 0, 1, 0, 4), (1, 5, 1, 0, 1, 4), (3, 4, 0, 0, 0, 4)]]
GZ_WRITE += [gz("VerifGzWrite", {"level": 0, "ops": 0, "extra": 1}, {"NAME": 1, "COMMENT": 0, "EXTRA": 0, "P": 2}, ["C06:"], ["written"])]
ZL_WRITE = [gz("VerifZlWrite", {"level": lv, "dict": d, "ops": ops}, {"P": p}, ["C06:"], ["written"], pkg=ZLIB)
            for (lv, d, ops, p) in [(0, 0, 1, 2), (0, 1, 0, 2), (1, 0, 1, 4), (2, 0, 0, 4), (3, 1, 3, 4), (4, 0, 2, 0), (5, 0, 1, 4), (5, 1, 0, 4), (0, 0, 4, 4), (1, 0, 5, 4), (2, 1, 4, 4), (5, 0, 4, 4)]]

CHECKS.update({
    "C06": {"level": "model_checking",
            "runs": GZ_WRITE + ZL_WRITE +
                    [gz("VerifGzHdrRead", {}, {"X": 4}, ["C06:"], ["accepted", "rejected"], thorough={"X": 5}),
                     gz("VerifZlRead", {"dict": 0, "hdrsym": 1}, {"N": 2, "M": 8, "B": 4}, ["C06:"], ["rejected"], pkg=ZLIB, validate=False),
                     gz("VerifZlRead", {"dict": 0, "hdrsym": 0}, {"N": 3, "M": 8, "B": 4}, ["C06:"], ["eof"], pkg=ZLIB, validate=False),
                     gz("VerifZlRead", {"dict": 1, "hdrsym": 0}, {"N": 3, "M": 8, "B": 3}, ["C06:"], ["eof"], pkg=ZLIB, validate=False),
                     gz("VerifGzDiff", {"shape": 0, "multi": 0}, {"G": 0}, ["C06:", "C08:"], ["default-mode"], validate=False)],
            "assumptions": ["interop is decided differentially: fastgo's and the standard library's Writer/Reader are both executed by the engine on the same symbolic header fields / container bytes",
                            "CRC-32 and Adler-32 are uninterpreted folds F(h, byte): that the right bytes are folded in the right order is decided, the checksum arithmetic is not",
                            "writer direction: level 0 (stored) compares the whole output with a symbolic payload; other levels compare header and trailer bytes around a concrete payload"]},
    "C07": {"level": "model_checking",
            "runs": [gz("VerifGzBody", {"multi": m}, {"N": n, "M": 8, "B": b}, ["C07:"], ["eof", "truncated", "header-error"], validate=False) for (m, n, b) in [(0, 3, 4), (1, 3, 1)]] +
                    [gz("VerifZlRead", {"dict": d, "hdrsym": 0}, {"N": 3, "M": 8, "B": 4}, ["C07:"], ["eof"], pkg=ZLIB, validate=False) for d in (0, 1)],
            "assumptions": ["one member: concrete 10-byte header, symbolic DEFLATE payload window (reference inflater says complete), 8 (4) symbolic trailer bytes, cut at a symbolic point",
                            "io.EOF => F-fold(delivered bytes) == trailer CRC/Adler and ISIZE == count, with F uninterpreted (a counterexample must reproduce natively with the real checksum to be reported)"]},
    "C08": {"level": "model_checking",
            "runs": [gz("VerifGzDiff", {"shape": sh, "multi": m}, {"G": g}, ["C08:", "C05:"], [], validate=False)
                     for (sh, m, g) in [(0, 0, 0), (1, 0, 2), (1, 1, 2), (2, 0, 1), (2, 1, 3), (3, 0, 3), (3, 1, 3)]],
            "assumptions": ["differential against compress/gzip's Reader on the same bytes: 1-3 members (stored payloads), symbolic trailers, symbolic trailing garbage, default mode and Multistream(false)+Reset"]},
})
CHECKS["C13"]["runs"] += [gz("VerifZlReset", {"dict": d, "hist": h}, {"N": 3, "M": 8}, ["C13:"], ["ran"], pkg=ZLIB, validate=False) for d in (0, 1) for h in (0, 1)]

CHECKS["C17"] = {
    "level": "other",
    "explanation": "Schedules are not explored. Decided instead, per path of a bounded symbolic run of two instance workloads (verifrt.Parallel): (i) no store to memory reachable from package-level state outside package initialisation and sync.Once bodies, (ii) the objects written through one instance are disjoint from everything read or written through the other. (i)+(ii) is the standard sufficient condition for schedule independence and race freedom of the encoded Go code; every explored path witness is additionally run natively with the two workloads in concurrent goroutines under the Go race detector.",
    "runs": [gz("VerifInstances", {"pair": p}, {"N": 2}, ["C17:"], ["ran"]) for p in range(10)],
    "assumptions": ["footprints of assembly routines, of the runtime and of the standard library's delegate writers beyond what the engine executes are outside the claim",
                    "a sync.Mutex/RWMutex on a path is reported as inconclusive, sync.Once bodies are treated as synchronised"],
}
for r in CHECKS["C17"]["runs"]:
    r["race"] = True
    r["sync_is_inconclusive"] = True
    r["validate_quick"] = 6

CHECKS["C15"]["runs"] += [gz("VerifGzFail", {"with": w, "buf": b}, {"CHUNK": ch}, ["C15:"], ["header-fault", "body-fault"]) for (w, b, ch) in [(0, 0, 0), (1, 1, 0), (0, 1, 3), (1, 0, 5)]]
CHECKS["C15"]["runs"] += [gz("VerifZlFail", {"with": w, "buf": b}, {}, ["C15:"], ["header-fault", "body-fault"], pkg=ZLIB) for (w, b) in [(0, 0), (1, 1), (0, 1), (1, 0)]]

CHECKS["C18"] = {
    "level": "model_checking",
    "runs": [dict(rd(c, n, M=16, labels=["C18:"], covers=["ran"], harness="VerifAsmDiff"), tags="verif", native_configs=[["verif", None]], maxdec=4000) for (c, n) in [(0, 2), (1, 2), (2, 1), (3, 1)]] +
            [dict(rd(c, n, M=16, labels=["C18:"], covers=["ran"], harness="VerifAsmDiff", tiers=["thorough"]), tags="verif", native_configs=[["verif", None]], maxdec=4000, maxconc=1500) for (c, n) in [(2, 2), (3, 2)]] +
            [dict(rd(4, 2, M=24, K=k, labels=["C18:"], covers=["ran"], harness="VerifAsmDiff", tiers=tiers, extra={"TAILLO": lo, "TAIL": hi}), tags="verif", native_configs=[["verif", None]], maxdec=4000)
             for (k, lo, hi, tiers) in [(2, 9, 11, ["quick"]), (2, 0, 24, ["thorough"]), (1, 0, 24, ["thorough"]), (5, 0, 24, ["thorough"])]],
    "assumptions": ["decode direction only: decodeHuffmanAsmArchV3 is executed from the current decode_amd64.s by asmsym (engine/asm.go: 33 mnemonics, flags as last compare/result, memory operands through the byte-granular heap so that displacements are reads of the Go struct layout); the AVX2/AVX-512 encoders and the LZ77 assembly are outside",
                    "the window sits inside a block followed by >= 40 concrete bytes so that the assembly fast path is entered; acceleration level is switched by assigning cpu.ArchLevel in the harness (0 vs 3)"],
}

CHECKS["C14"]["runs"] += [gz("VerifGzWrFail", {"recover": rc, "level": lv}, {"K": 3, "KMAX": 9}, ["C14:"], ["failure-reported", "op-after-failure"]) for (rc, lv) in [(0, 0), (1, 1)]]
CHECKS["C14"]["runs"] += [gz("VerifZlWrFail", {"recover": rc, "level": lv, "dict": d}, {"K": 3, "KMAX": 5}, ["C14:"], ["failure-reported", "op-after-failure"], pkg=ZLIB) for (rc, lv, d) in [(0, 0, 0), (1, 1, 1), (1, 2, 0)]]
CHECKS["C13"]["runs"] += [gz("VerifZlReset", {"dict": 2, "hist": h}, {"N": 3, "M": 8}, ["C13:"], ["ran"], pkg=ZLIB, validate=False) for h in (0, 1)]
CHECKS["C15"]["runs"] += [rdp("VerifRdFail", c, n, {"with": w}, ["C15:"], ["faulted"], extra={"WRAPEOF": 1}) for (c, n, w) in [(0, 2, 0), (12, 1, 1)]]

# a header cut short (also inside the optional FHCRC field) must end in io.ErrUnexpectedEOF, as in compress/gzip
CHECKS["C07"]["runs"] += [gz("VerifGzHdrRead", {}, {"X": 4}, ["C06:header-error"], ["accepted", "rejected"])]

CHECKS["C01"]["runs"] += [dict(wr("VerifKHuffGen", {}, {"NSYM": n, "LIMIT": lim, "SIZE": 8, "SMALL": 0}, ["C01:"], ["single", "several"], tiers=tiers), pkg=HUFFMAN)
                          for (n, lim, tiers) in [(4, 2, ["quick", "thorough"]), (4, 15, ["quick", "thorough"]), (5, 3, ["quick", "thorough"]), (5, 15, ["quick", "thorough"]),
                                                  (6, 3, ["thorough"]), (6, 4, ["thorough"]), (6, 15, ["thorough"])]]
CHECKS["C01"]["assumptions"].append("Huffman code-length generation (LenLimitedCode.Generate incl. the unsafe sort, Moffat's algorithm and enforceMaxLen, then GenerateCode2) is decided for histograms with up to 5 (thorough: 6) symbolic 16-bit counts at limits 2..4 and 15: complete prefix code, lengths within the limit, no code for absent symbols; larger alphabets only through the concrete data of the operation sequences")

CHECKS["C16"]["runs"] += [gz("VerifCtorLevels", {}, {}, ["C16:"], ["ran"])]
CHECKS["C02"]["runs"] += [rd(0, 2, labels=["C02:", "REF:"], extra={"S": 1})]

CHECKS["C16"]["runs"] += [gz("VerifGzSeq", {}, {"K": 4}, ["C16:"], ["close"], thorough={"K": 5})]

CHECKS["C01"]["runs"] += [wr("VerifKEncBytes", {}, {"IDXLO": lo, "IDXHI": hi, "L0": l0, "L1": l1, "LE": le, "DATA": d}, ["C01:"], ["ran", "complete"], tiers=tiers)
                          for (lo, hi, l0, l1, le, d, tiers) in [(8150, 8180, 15, 9, 7, 6, ["quick", "thorough"]), (8160, 8180, 8, 8, 15, 3, ["quick", "thorough"]), (0, 4, 15, 15, 15, 7, ["quick", "thorough"]),
                                                                 (8120, 8185, 15, 15, 15, 9, ["thorough"]), (8140, 8185, 11, 13, 2, 12, ["thorough"])]]
CHECKS["C18"]["runs"] += [dict(rd(5, 3, M=300, labels=["C18:"], covers=["ran"], harness="VerifAsmDiff"), tags="verif", native_configs=[["verif", None]], maxdec=4000, maxconc=1500)]

# round-4 additions
CHECKS["C12"]["runs"] += [wr("VerifWrReset", {"setting": st, "oldfails": 0}, {"K1": k1, "K2": 3, "W": 16, "BIGEXACT": 0, "REPLAY": 1}, ["C12:"], ["compared"]) for (st, k1) in [(5, 4), (6, 3), (3, 3)]]
CHECKS["C11"]["runs"] += [rdp("VerifRdGate", c, n, {"bufio": b}, ["C11:"], []) for (c, n) in [(4, 6), (5, 6)] for b in (0, 2)]
CHECKS["C05"]["runs"] += [rdp("VerifRdPos", 90, n, {"src": k, "ctor": ct}, ["C05:"], [], extra={"K": kk}) for (n, kk) in [(1, 0), (1, 1), (2, 2), (2, 0)] for (k, ct) in [(0, 1), (2, 0)]]
CHECKS["C01"]["runs"] += [wr("VerifWrLookahead", {"setting": st}, {"W": 16, "PRE": 900, "T": t}, ["C01:", "C10:"], ["closed"]) for st in (5, 6) for t in (1, 2)]
CHECKS["C01"]["assumptions"].append("VerifWrLookahead: the state idx == end with tokens pending (reached only by the accelerated match finders) is constructed from a real state right after a non-flushing step by consuming j <= 8 look-ahead bytes as literals; which such states the assembly really reaches is not decided")
# symbolic code-length symbol stream near the literal/distance boundary (context 91), one-byte window.
# K=3 puts a whole symbolic length symbol into the window: table construction over a symbolic length costs
# 30-50 s per run and sometimes 'unknown', so those runs case-split the window byte (CONC=1); two-byte
# windows were tried and dropped (solver unknowns).
HDR91 = [(1, k, hl, hd) for (hl, hd) in [(0, 0), (1, 1), (29, 0), (0, 29), (10, 5)] for k in (1, 2, 3, 4, 5, 6)]
# quick: the window byte is case-split (CONC=1, ~1.5 s per run); the genuinely symbolic variant (30-70 s for
# several alignments: slow queries over table construction) runs in the thorough tier
CHECKS["C03"]["runs"] += [rd(91, n, K=k, labels=["C03:"], extra={"HL": hl, "HD": hd, "CONC": 1}) for (n, k, hl, hd) in HDR91]
CHECKS["C03"]["runs"] += [rd(91, n, K=k, labels=["C03:"], tiers=["thorough"], extra={"HL": hl, "HD": hd, "CONC": 0}) for (n, k, hl, hd) in HDR91 if k != 3]
CHECKS["C02"]["runs"] += [rd(91, n, K=k, labels=["C02:", "REF:"], extra={"HL": hl, "HD": hd, "CONC": 1}) for (n, k, hl, hd) in HDR91 if k in (1, 3, 5)]

# context 92: bits [BLO, BHI) of a complete template header are symbolic.
def hdr92(K, lo, hi, conc, labels, tiers=("quick", "thorough")):
    n = (hi - 1) // 8 - lo // 8 + 1
    r = rd(92, n, K=K, labels=labels, tiers=tiers, extra={"BLO": lo, "BHI": hi, "CONC": conc})
    r["maxdec"] = 4000
    return r

def hdr92sweep(K, lo0, count, step, labels, tiers=("quick", "thorough")):
    # one run, `count` sliding 8-bit windows starting at lo0, `step` bits apart (N=2: a window spans at most two bytes)
    r = rd(92, 2, K=K, labels=labels, tiers=tiers, extra={"BLO": lo0, "BHI": lo0 + 8, "CONC": 1, "BCOUNT": count, "BSTEP": step})
    r["maxdec"] = 4000
    r["maxconc"] = 600
    return r

HDR92_LEN = {2: 145, 14: 153, 8: 345, 12: 200}
for _lab, _pid in ((["C03:"], "C03"), (["C02:", "REF:"], "C02")):
    # HLIT, HDIST, HCLEN fields: symbolic
    CHECKS[_pid]["runs"] += [hdr92(K, lo, hi, 0, _lab) for K in (2, 14) for (lo, hi) in [(3, 8), (8, 13), (13, 17)]]
    # code-length code lengths and code-length symbols: sliding 8-bit windows, case-split
    CHECKS[_pid]["runs"] += [hdr92sweep(K, 17, (HDR92_LEN[K] - 17 + 7) // 8, 8, _lab) for K in (2, 14)]
    CHECKS[_pid]["runs"] += [hdr92sweep(K, 21, (HDR92_LEN[K] - 21 + 7) // 8, 8, _lab, tiers=["thorough"]) for K in (2, 14)]
    CHECKS[_pid]["runs"] += [hdr92sweep(K, 17, (HDR92_LEN[K] - 17 + 3) // 4, 4, _lab, tiers=["thorough"]) for K in (8, 12)]
# assembly match-copy strategies: byte-aligned two-byte window after non-repeating output (context 6)
CHECKS["C18"]["runs"] += [dict(rd(6, 2, M=36, labels=["C18:"], covers=["ran"], harness="VerifAsmDiff", tiers=["quick", "thorough"], extra={"LITCAP": 1}), tags="verif", native_configs=[["verif", None]], maxdec=4000)]
# thorough: the unrestricted variant (any first symbol, window output up to 260 bytes); the thorough command including it ran clean on the
# final tree (45 459 path classes, 53 min while another thorough command was running)
CHECKS["C18"]["runs"] += [dict(rd(6, 2, M=260, labels=["C18:"], covers=["ran"], harness="VerifAsmDiff", tiers=["thorough"]), tags="verif", native_configs=[["verif", None]], maxdec=4000, maxconc=600)]
# (context 1 with N=3 also catches the C18d change -- 2 min on the changed tree, 15.5 min and 22 013 path classes clean on the
#  unchanged one when run directly -- but the whole thorough command with it could not be re-run to completion in the time left,
#  so it is not registered)

# context 94: far back-references (distance symbols 28/29 with symbolic extra bits) before and after the
# history slide, across the end of the output window, and around distance == bytes produced
FAR94 = [(40000, 3, 29, 7942, 8191), (40000, 258, 29, 8100, 8191), (65436, 258, 29, 8000, 8191), (65736, 3, 29, 7942, 8191),
         (65736, 258, 29, 8100, 8191), (30000, 3, 29, 5303, 5543), (65736, 3, 28, 3900, 4095), (98204, 258, 29, 8100, 8191),
         (32778, 3, 29, 8150, 8191), (32760, 3, 29, 8150, 8191)]
def far94(harness, labels, P, ml, ds, lo, hi, picks=None, tiers=("quick", "thorough")):
    r = rd(94, 2, M=300, K=P, labels=labels, harness=harness, tiers=tiers, extra={"ML": ml, "DS": ds, "XLO": lo, "XHI": hi})
    r["maxdec"] = 4000
    if picks:
        r["picks"].update(picks)
    return r
CHECKS["C02"]["runs"] += [far94("VerifRdOracle", ["C02:", "REF:"], *f) for f in FAR94]
CHECKS["C03"]["runs"] += [far94("VerifRdOracle", ["C03:"], *f) for f in FAR94[5:6] + FAR94[8:]]
CHECKS["C04"]["runs"] += [far94("VerifRdChunk", ["C04:"], *f, picks={"chunk": ch, "bufio": b}) for f in (FAR94[2], FAR94[4]) for (ch, b) in [(0, 0), (3, 1)]]
# context 93: a stored block copied across the end of the output window
CHECKS["C02"]["runs"] += [rd(93, n, K=k, labels=["C02:", "REF:"]) for (n, k) in [(4, 2), (6, 0), (3, 3), (5, 6)]]
CHECKS["C04"]["runs"] += [rdp("VerifRdChunk", 93, n, {"chunk": ch, "bufio": b}, ["C04:"], ["ran"], extra={"K": k}) for (n, k, ch, b) in [(4, 2, 0, 0), (6, 3, 3, 1)]]
CHECKS["C05"]["runs"] += [rdp("VerifRdPos", 93, 4, {"src": k, "ctor": ct}, ["C05:"], ["eof"], extra={"K": 2}) for (k, ct) in [(0, 1), (2, 0)]]
CHECKS["C11"]["runs"] += [rdp("VerifRdGate", 93, 4, {"bufio": b}, ["C11:"], [], extra={"K": 2}) for b in (0, 2)]

# findings of the native defect hunt (A.5): long distance codes in an incomplete code (template 5 windows),
# the window filling with the rest of the stream in the bit buffer (gate on context 90), Reset on a Reader
# that holds the caller's bufio.Reader
for _lab, _pid in ((["C03:"], "C03"), (["C02:", "REF:"], "C02")):
    CHECKS[_pid]["runs"] += [hdr92sweep(5, 89, 15, 8, _lab)]
    CHECKS[_pid]["runs"] += [hdr92sweep(5, 93, 14, 8, _lab, tiers=["thorough"])]
    CHECKS[_pid]["runs"] += [hdr92sweep(K, 17, 31, 8, _lab, tiers=["thorough"]) for K in (3, 17)]
CHECKS["C11"]["runs"] += [rdp("VerifRdGate", 90, n, {"bufio": b}, ["C11:"], [], extra={"K": k}) for (n, k) in [(1, 0), (1, 2), (2, 1)] for b in (0, 2)]
CHECKS["C05"]["runs"] += [rdp("VerifRdPos", c, n, {"src": k, "ctor": ct}, ["C05:", "C13:"], ["eof"], extra={"REUSE": 1}) for (c, n) in [(0, 2), (1, 2)] for (k, ct) in [(0, 1), (2, 0), (3, 1)]]
CHECKS["C13"]["runs"] += [rdp("VerifRdPos", 0, 2, {"src": k, "ctor": ct}, ["C05:", "C13:"], ["eof"], extra={"REUSE": 1}) for (k, ct) in [(1, 0), (2, 1)]]
