#!/usr/bin/env python3
"""seedtest.py ID DEMO_DEST RUN_PATTERN PKG [--patch file]
Confirms a seeded change on a scratch worktree of /repo HEAD, then runs the
registered check against /repo with the change applied (and undoes it)."""
import sys, os, subprocess, json, shutil, time
ID, dest, pat, pkg = sys.argv[1:5]
PROP = ID[:3]
patch = "/tmp/mut/out/%s/patch.diff" % ID
if "--patch" in sys.argv:
    patch = sys.argv[sys.argv.index("--patch") + 1]
demo = "/tmp/mut/out/%s/demo_test.go" % ID
env = dict(os.environ, GOFLAGS="-mod=mod", GOPROXY="off", GOSUMDB="off", GOTOOLCHAIN="local")
wt = "/tmp/sw/%s" % ID
def sh(cmd, cwd=None, e=env):
    r = subprocess.run(cmd, shell=True, cwd=cwd, env=e, capture_output=True, text=True)
    return r.returncode, (r.stdout + r.stderr)
shutil.rmtree(wt, ignore_errors=True)
sh("git -C /repo worktree prune")
rc, out = sh("git -C /repo worktree add -f --detach %s HEAD" % wt)
assert rc == 0, out
meta = {"property": PROP, "patch": os.path.basename(patch), "base": sh("git -C /repo rev-parse --short HEAD")[1].strip(), "ran": []}
def rec(cmd, rc, out):
    meta["ran"].append({"cmd": cmd, "rc": rc, "tail": out[-400:]})
try:
    rc, out = sh("git apply %s || git apply --3way %s" % (patch, patch), cwd=wt)
    rec("git apply", rc, out)
    if rc != 0:
        print("PATCH DOES NOT APPLY:", out[-500:]); sys.exit(3)
    rc, out = sh("go build ./... && go test -vet=off -count=1 ./... 2>&1 | grep -v 'no test files'", cwd=wt)
    rec("suite with change (default build)", rc, out)
    suite_ok = rc == 0 and "FAIL" not in out
    rc2, out2 = sh("go test -tags noasmtest -vet=off -count=1 ./... 2>&1 | grep -v 'no test files'", cwd=wt)
    rec("suite with change (noasmtest)", rc2, out2)
    os.makedirs(os.path.dirname(os.path.join(wt, dest)), exist_ok=True)
    shutil.copy(demo, os.path.join(wt, dest))
    res = {}
    for tags in ("", "-tags noasmtest"):
        cmd = "go test %s -vet=off -count=1 -run '%s' %s" % (tags, pat, pkg)
        rc, out = sh(cmd, cwd=wt)
        rec("demo WITH change: " + cmd, rc, out)
        res[("with", tags)] = rc
    sh("git diff HEAD > /tmp/sw/%s.patch && git reset -q --hard HEAD" % ID, cwd=wt)
    for tags in ("", "-tags noasmtest"):
        cmd = "go test %s -vet=off -count=1 -run '%s' %s" % (tags, pat, pkg)
        rc, out = sh(cmd, cwd=wt)
        rec("demo WITHOUT change: " + cmd, rc, out)
        res[("without", tags)] = rc
    confirmed = suite_ok and any(res[("with", t)] != 0 and res[("without", t)] == 0 for t in ("", "-tags noasmtest"))
    meta["confirmed"] = confirmed
    meta["suite_passes_with_change"] = suite_ok
    meta["demo_fails_with_change"] = {t or "default": res[("with", t)] != 0 for t in ("", "-tags noasmtest")}
    meta["demo_passes_without_change"] = {t or "default": res[("without", t)] == 0 for t in ("", "-tags noasmtest")}
    print("suite_ok", suite_ok, "with", res[("with", "")], res[("with", "-tags noasmtest")], "without", res[("without", "")], res[("without", "-tags noasmtest")], "=> confirmed", confirmed)
    if confirmed and "--nocheck" not in sys.argv:
        # run the registered check against the scratch tree with the change applied
        rc, out = sh("git apply /tmp/sw/%s.patch && rm -f %s" % (ID, dest), cwd=wt)
        assert rc == 0, out
        t0 = time.time()
        e2 = dict(env, VERIF_REPO=wt, VERIF_OUT_DIR="/tmp/sw/out_%s" % ID)
        rc, out = sh("cd /verif && ./vcheck run %s --tier quick" % PROP, e=e2)
        meta["check_quick"] = {"rc": rc, "wall_s": round(time.time() - t0), "tree": "scratch worktree of /repo HEAD + patch (VERIF_REPO)",
                               "lines": [l for l in out.split("\n") if l.startswith(("VIOLATION", "INCONCLUSIVE", "KNOWN", PROP, "  signature"))][:12]}
        print("check rc", rc)
        for l in meta["check_quick"]["lines"][:8]: print("   ", l[:260])
    sd = "/verif/seeded/%s" % ID
    os.makedirs(sd, exist_ok=True)
    shutil.copy("/tmp/sw/%s.patch" % ID, os.path.join(sd, "patch.diff"))
    shutil.copy(demo, os.path.join(sd, "demo_test.go"))
    if os.path.exists("/tmp/mut/out/%s/NOTES.md" % ID):
        shutil.copy("/tmp/mut/out/%s/NOTES.md" % ID, os.path.join(sd, "NOTES.md"))
    meta["demo_dest"] = dest
    meta["demo_cmd"] = "go test -vet=off -count=1 -run '%s' %s" % (pat, pkg)
    json.dump(meta, open(os.path.join(sd, "meta.json"), "w"), indent=1)
finally:
    sh("git -C /repo worktree remove --force %s" % wt)
    sh("git -C /repo status --short")
