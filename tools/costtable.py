#!/usr/bin/env python3
"""Rewrites section A.9 of DESIGN.md (measured cost per property) from /verif/evidence/*.json."""
import json, glob, os
rows=[]
for f in sorted(glob.glob('/verif/evidence/*.json')):
    e=json.load(open(f)); c=e['coverage']
    rows.append((e['property_id'], e['tier'], len(c.get('runs',[])), c['states'], c['transitions'], c['queries']['total'], c['queries']['unknown'], c['traces_validated_against_impl'], c['solver_s'], e['wall_s'], len(c.get('functions_encoded',{}))))
out=['### A.9 Measured cost of the registered checks (from the committed evidence files)','',
     '| property | tier | harness cases | path classes | decisions | solver queries | unknown | native validations | solver s (sum over 16 workers) | wall s | functions executed symbolically |','|---|---|---|---|---|---|---|---|---|---|---|']
for r in rows: out.append('| '+' | '.join(str(x) for x in r)+' |')
out.append('')
txt='\n'.join(out)
s=open('/verif/DESIGN.md').read()
if '### A.9 Measured cost' in s:
    i=s.index('### A.9 Measured cost'); j=s.index('\n## ',i)
    s=s[:i]+txt+s[j:]
else:
    i=s.index('## 0. Summary'); s=s[:i]+txt+'\n'+s[i:]
open('/verif/DESIGN.md','w').write(s)
print(txt)
