#!/usr/bin/env python3
"""Rewrites section A.8 of DESIGN.md from /verif/seeded/*/meta.json."""
import json, glob, os, re
rows = []
for d in sorted(glob.glob('/verif/seeded/*')):
    mf = os.path.join(d, 'meta.json')
    if not os.path.exists(mf):
        continue
    m = json.load(open(mf))
    cq = m.get('check_quick')
    needs = m.get('needs', '')
    what = m.get('what', '')
    if cq is None:
        verdict = 'not run (property not claimed)' if m.get('confirmed') else 'change not confirmed'
        by = ''
    else:
        verdict = {0: 'MISSED', 1: 'caught', 2: 'inconclusive'}.get(cq['rc'], str(cq['rc']))
        sigs = []
        for l in cq['lines']:
            mm = re.search(r'"harness": "([^"]*)", "case": "([^"]*)", "assertion": "([^"]*)"', l)
            if mm:
                sigs.append('%s[%s] %s' % mm.groups())
        by = '; '.join(sorted(set(sigs))[:3])
    rows.append((os.path.basename(d), m.get('property'), 'yes' if m.get('confirmed') else 'no', verdict, by, what, needs))
out = ['### A.8 Seeded changes and what catches them', '',
       '| dir | property | confirmed | quick check | caught by (signature) | change | needs |', '|---|---|---|---|---|---|---|']
for r in rows:
    out.append('| ' + ' | '.join(x.replace('|', '/') for x in r) + ' |')
out.append('')
txt = '\n'.join(out)
s = open('/verif/DESIGN.md').read()
if '### A.8 Seeded changes' in s:
    i = s.index('### A.8 Seeded changes')
    j = s.index('\n## ', i) if '\n## ' in s[i:] else len(s)
    s = s[:i] + txt + s[j:]
else:
    i = s.index('## 0. Summary')
    s = s[:i] + txt + '\n' + s[i:]
open('/verif/DESIGN.md', 'w').write(s)
print(txt)
