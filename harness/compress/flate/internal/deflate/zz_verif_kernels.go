//go:build verif

package deflate

import (
	"github.com/intel/fastgo/internal/verifrt"
)

// VerifKDist (C01, C19): distance symbol / extra bits / token packing, for every distance.
func VerifKDist() {
	d := verifrt.U32()
	verifrt.Assume(d >= 1 && d <= 32768)
	sym, extra := getDistSymbol(d)
	verifrt.Assert(sym < 30, "C01:dist-symbol-range")
	// the decoder reconstructs base[sym] + extra
	verifrt.Assert(disttable[sym]+extra == d, "C19:dist-symbol-roundtrip")
	// extra fits the number of extra bits RFC 1951 assigns to sym
	eb := uint32(0)
	if sym >= 4 {
		eb = (sym - 2) / 2
	}
	verifrt.Assert(extra < 1<<eb, "C01:dist-extra-width")
	l := verifrt.U32()
	verifrt.Assume(l >= 257 && l <= 512)
	t := newToken(l, sym, extra)
	a, b, c := t.Extract()
	verifrt.Assert(a == l && b == sym && c == extra, "C01:token-pack")
	verifrt.Cover("ran")
}

// vkBitBuf builds a BitBuf in an arbitrary state inside its invariant.
func vkBitBuf(size int, idxMax int) *BitBuf {
	b := &BitBuf{output: make([]byte, size)}
	bl := int(verifrt.U8())
	verifrt.Assume(bl >= 0 && bl <= 64)
	b.bitLen = bl
	b.bits = verifrt.U64()
	if bl < 64 {
		verifrt.Assume(b.bits>>uint(bl) == 0)
	}
	idx := int(verifrt.U8())
	verifrt.Assume(idx >= 0 && idx <= idxMax)
	b.idx = verifrt.Concretize(idx)
	return b
}

// vkBitString returns the logical bit string of a BitBuf: output[from:idx] then the accumulator.
type vkBits struct {
	bytes []byte
	bits  uint64
	n     int
}

func vkAt(b *BitBuf, from int, i int) byte { // bit i of the logical string
	nbytes := b.idx - from
	if i < 8*nbytes {
		return (b.output[from+i/8] >> uint(i%8)) & 1
	}
	j := i - 8*nbytes
	return byte(b.bits>>uint(j)) & 1
}

// VerifKBitBuf (C01, C10): WriteBit appends exactly count bits; Sync and
// flushLastByte keep the bit string; writeEmptyBlock appends 000 + padding zeros + 00 00 ff ff.
func VerifKBitBuf() {
	which := verifrt.Pick("fn", 4)
	b := vkBitBuf(64, 8)
	from := b.idx
	preBits := b.bits
	preLen := verifrt.Concretize(b.bitLen)
	b.bitLen = preLen
	switch which {
	case 0: // WriteBit
		count := verifrt.U8()
		verifrt.Assume(count >= 1 && count <= 16)
		code := verifrt.U16()
		verifrt.Assume(uint32(code)>>count == 0)
		cnt := verifrt.Concretize(int(count))
		b.WriteBit(code, uint8(cnt))
		total := 8*(b.idx-from) + b.bitLen
		verifrt.Assert(total == preLen+cnt, "C01:writebit-length")
		verifrt.Assert(b.bitLen >= 0 && b.bitLen <= 64, "C01:bitbuf-invariant")
		if b.bitLen < 64 {
			verifrt.Assert(b.bits>>uint(b.bitLen) == 0, "C01:bitbuf-stale-bits")
		}
		for i := 0; i < preLen; i++ {
			verifrt.Assert(vkAt(b, from, i) == byte(preBits>>uint(i))&1, "C01:writebit-old-bits")
		}
		for i := 0; i < cnt; i++ {
			verifrt.Assert(vkAt(b, from, preLen+i) == byte(code>>uint(i))&1, "C01:writebit-new-bits")
		}
	case 1: // Sync
		b.Sync()
		verifrt.Assert(8*(b.idx-from)+b.bitLen == preLen && b.bitLen < 8, "C01:sync-length")
		for i := 0; i < preLen; i++ {
			verifrt.Assert(vkAt(b, from, i) == byte(preBits>>uint(i))&1, "C01:sync-bits")
		}
	case 2: // flushLastByte
		b.flushLastByte()
		verifrt.Assert(b.bitLen == 0 && b.bits == 0, "C10:flush-leaves-bits")
		verifrt.Assert(8*(b.idx-from) == (preLen+7)/8*8, "C10:flush-length")
		for i := 0; i < 8*(b.idx-from); i++ {
			want := byte(0)
			if i < preLen {
				want = byte(preBits>>uint(i)) & 1
			}
			verifrt.Assert(vkAt(b, from, i) == want, "C10:flush-padding-not-zero")
		}
	case 3: // writeEmptyBlock: sync marker (the accumulator may be completely full)
		b.writeEmptyBlock()
		n := b.idx - from
		verifrt.Assert(b.bitLen == 0 && b.bits == 0, "C10:marker-leaves-bits")
		verifrt.Assert(n == (preLen+3+7)/8+4, "C10:marker-length")
		for i := 0; i < preLen; i++ {
			verifrt.Assert(vkAt(b, from, i) == byte(preBits>>uint(i))&1, "C10:marker-old-bits")
		}
		for i := preLen; i < 8*(n-4); i++ {
			verifrt.Assert(vkAt(b, from, i) == 0, "C10:marker-header-bits")
		}
		verifrt.Assert(b.output[b.idx-4] == 0 && b.output[b.idx-3] == 0 && b.output[b.idx-2] == 0xff && b.output[b.idx-1] == 0xff, "C10:marker-len-nlen")
	}
	verifrt.Cover("ran")
}

// VerifKEncToken (C01, C14 memory safety): encodeTokens on one token with an
// arbitrary accumulator and arbitrary (well-formed) code table entries.
func VerifKEncToken() {
	var h histogram
	b := vkBitBuf(64, 0)
	b.idx = [3]int{0, 55, 56}[verifrt.Pick("idx", 3)]
	from := b.idx
	preLen := verifrt.Concretize(b.bitLen)
	b.bitLen = preLen
	preBits := b.bits
	isMatch := verifrt.Pick("match", 2) == 1
	var litlen, dist, extra uint32
	var lcode, lcount, dcode, dcount, ecount uint32
	lcount = uint32([4]int{1, 9, 15, 20}[verifrt.Pick("lc", 4)]) // expanded length codes: up to 15+5 bits
	lcode = verifrt.U32()
	verifrt.Assume(lcode>>lcount == 0)
	if isMatch {
		litlen = 257 + uint32(verifrt.U8())
		verifrt.Assume(litlen <= 512)
		dist = uint32(verifrt.U8())
		verifrt.Assume(dist < 30)
		dcount = uint32([3]int{1, 5, 15}[verifrt.Pick("dc", 3)])
		dcode = uint32(verifrt.U16())
		verifrt.Assume(dcode>>dcount == 0)
		if dist >= 4 {
			ecount = (dist - 2) / 2
		}
		extra = uint32(verifrt.U16())
		verifrt.Assume(extra>>ecount == 0)
		h.distanceCodes[dist] = dcode | ecount<<16 | dcount<<24
	} else {
		litlen = uint32(verifrt.U8())
		dist = InvalidDist
		h.distanceCodes[30] = 0
		verifrt.Assume(lcount <= 15)
	}
	h.setLitCode(litlen, lcode, lcount)
	toks := []token{newToken(litlen, dist, extra)}
	n := encodeTokens(&h, toks, b)
	verifrt.Cover("ran")
	if n == 0 {
		verifrt.Assert(from >= len(b.output)-8, "C01:encoder-refuses-with-room")
		return
	}
	verifrt.Assert(n == 1, "C01:encoder-count")
	total := 8*(b.idx-from) + b.bitLen
	want := preLen + int(lcount+dcount+ecount)
	verifrt.Assert(total == want, "C01:encoded-length")
	verifrt.Assert(b.bitLen >= 0 && b.bitLen <= 64 && b.idx <= len(b.output), "C01:bitbuf-invariant")
	if b.bitLen < 64 {
		verifrt.Assert(b.bits>>uint(b.bitLen) == 0, "C01:bitbuf-stale-bits")
	}
	for i := 0; i < preLen; i++ {
		verifrt.Assert(vkAt(b, from, i) == byte(preBits>>uint(i))&1, "C01:encode-old-bits")
	}
	for i := 0; i < int(lcount); i++ {
		verifrt.Assert(vkAt(b, from, preLen+i) == byte(lcode>>uint(i))&1, "C01:encode-litlen-code")
	}
	for i := 0; i < int(dcount); i++ {
		verifrt.Assert(vkAt(b, from, preLen+int(lcount)+i) == byte(dcode>>uint(i))&1, "C01:encode-dist-code")
	}
	for i := 0; i < int(ecount); i++ {
		verifrt.Assert(vkAt(b, from, preLen+int(lcount+dcount)+i) == byte(extra>>uint(i))&1, "C01:encode-extra-bits")
	}
}

// VerifKLz77Step (C01, C19): one iteration of the real lz77 loop (maxToken=0
// returns after exactly one token) from an arbitrary state: symbolic window
// content, symbolic 16-bit positions (processed may have wrapped), an arbitrary
// hash-table entry (every entry holds the same symbolic value: the step reads
// exactly one entry before it writes any, so this is without loss of generality).
func VerifKLz77Step() {
	B := verifrt.Param("B")
	lvl := verifrt.Pick("level", 2)
	hs := [3]int{4096, 32768, 8}[verifrt.Pick("window", 3)]
	input := verifrt.Bytes(B)
	offset := verifrt.Param("OFF")
	// processed: logical position of input[offset] (mod 2^16 arithmetic inside)
	processed := int(verifrt.U32() & 0x3ffff)
	verifrt.Assume(processed >= offset)
	entry := verifrt.U16()
	// representation invariant of the hash table (DESIGN.md 7.0): before the first
	// slide (processed == offset) an entry is 0 or an earlier position; after a
	// slide the buffer holds at least a full window before offset.
	if processed == offset {
		verifrt.Assume(int(entry) <= offset&0xffff || offset >= 65536)
	} else {
		verifrt.Assume(offset >= hs)
	}
	var hist histogram
	var nOffset int
	var toks []token
	flush := verifrt.Pick("flush", 2) == 1
	if lvl == 0 {
		var table [1 << 12]uint16
		for i := range table {
			table[i] = entry
		}
		nOffset, toks = lz77(flush, table[:], 1<<12-1, hs, &hist, input, processed, offset, make([]token, 0, 4), 0)
	} else {
		var table [1 << 15]uint16
		for i := range table {
			table[i] = entry
		}
		nOffset, toks = lz77(flush, table[:], 1<<15-1, hs, &hist, input, processed, offset, make([]token, 0, 4), 0)
	}
	if len(toks) == 0 {
		verifrt.Cover("no-token")
		verifrt.Assert(nOffset == offset, "C01:lz77-advance-without-token")
		return
	}
	verifrt.Assert(len(toks) == 1, "C01:lz77-token-count")
	litLen, dsym, dextra := toks[0].Extract()
	if dsym == InvalidDist {
		verifrt.Cover("literal")
		verifrt.Assert(litLen < 256 && byte(litLen) == input[offset], "C01:lz77-literal-value")
		verifrt.Assert(nOffset == offset+1, "C01:lz77-literal-advance")
		verifrt.Assert(hist.literalCodes[litLen] == 1, "C01:lz77-literal-histogram")
		return
	}
	verifrt.Cover("match")
	verifrt.Assert(dsym < 30, "C01:lz77-dist-symbol")
	L := int(litLen) - 254
	D := int(disttable[dsym&31] + dextra)
	verifrt.Assert(L >= 3 && L <= 258, "C01:lz77-length-range")
	verifrt.Assert(D >= 1 && D <= hs, "C19:lz77-distance-beyond-window")
	verifrt.Assert(D <= offset, "C01:lz77-distance-before-buffer")
	verifrt.Assert(nOffset == offset+L, "C01:lz77-match-advance")
	verifrt.Assert(nOffset <= len(input), "C01:lz77-match-past-end")
	// every matched byte equals the byte D back (skolem index)
	j := int(verifrt.U16())
	verifrt.Assume(j >= 0 && j < L && offset+j < len(input) && offset+j-D >= 0)
	verifrt.Assert(input[offset+j] == input[offset+j-D], "C01:lz77-match-content")
	verifrt.Assert(hist.literalCodes[litLen] == 1 && hist.distanceCodes[dsym] == 1, "C01:lz77-match-histogram")
}

// VerifKEncBytes (C01): one call of the Huffman-only byte encoder from an
// arbitrary position near the end of the 8 KiB staging buffer, with arbitrary
// (well-formed) codes for two byte values and end-of-block: it appends exactly
// the codes of the bytes it reports as consumed, and the end-of-block code if
// and only if it consumed all of them.
func VerifKEncBytes() {
	var h histogram
	b := &BitBuf{output: make([]byte, 8*1024)}
	idx := int(verifrt.U16())
	verifrt.Assume(idx >= verifrt.Param("IDXLO") && idx <= verifrt.Param("IDXHI"))
	b.idx = verifrt.Concretize(idx)
	bl := int(verifrt.U8())
	verifrt.Assume(bl >= 0 && bl <= 7)
	b.bitLen = verifrt.Concretize(bl)
	b.bits = verifrt.U64()
	verifrt.Assume(b.bits>>uint(b.bitLen) == 0)
	from, preLen, preBits := b.idx, b.bitLen, b.bits
	// codes
	var cnt [3]uint32
	var code [3]uint32
	lens := [3]int{verifrt.Param("L0"), verifrt.Param("L1"), verifrt.Param("LE")}
	for i := 0; i < 3; i++ {
		cnt[i] = uint32(lens[i])
		code[i] = verifrt.U32()
		verifrt.Assume(code[i]>>cnt[i] == 0)
	}
	h.setLitCode('x', code[0], cnt[0])
	h.setLitCode('y', code[1], cnt[1])
	h.setLitCode(256, code[2], cnt[2])
	n := verifrt.Param("DATA")
	data := make([]byte, n)
	for i := range data {
		data[i] = 'x'
		if i%2 == 1 {
			data[i] = 'y'
		}
	}
	num := encodeBytes(&h, data, b)
	verifrt.Cover("ran")
	verifrt.Assert(num >= 0 && num <= n, "C01:encbytes-count-range")
	if num == 0 && n > 0 {
		verifrt.Assert(from >= len(b.output)-16, "C01:encbytes-refuses-with-room")
	}
	// expected bit string
	want := preLen
	pos := preLen
	check := func(c uint32, k uint32, label string) {
		for i := 0; i < int(k); i++ {
			verifrt.Assert(vkAt(b, from, pos+i) == byte(c>>uint(i))&1, label)
		}
		pos += int(k)
	}
	for i := 0; i < preLen; i++ {
		verifrt.Assert(vkAt(b, from, i) == byte(preBits>>uint(i))&1, "C01:encbytes-old-bits")
	}
	for i := 0; i < num; i++ {
		if data[i] == 'x' {
			check(code[0], cnt[0], "C01:encbytes-literal-code")
		} else {
			check(code[1], cnt[1], "C01:encbytes-literal-code")
		}
	}
	if num == n {
		verifrt.Cover("complete")
		check(code[2], cnt[2], "C01:encbytes-missing-end-of-block")
	}
	want = pos
	verifrt.Assert(8*(b.idx-from)+b.bitLen == want, "C01:encbytes-length")
	verifrt.Assert(b.idx <= len(b.output), "C01:bitbuf-invariant")
}
