//go:build verif

package deflate

import (
	stdflate "compress/flate"
	"io"

	"github.com/intel/fastgo/internal/verifrt"
)

// vwSink records what the Writer emits; it can fail at its k-th call.
type vwSink struct {
	b      []byte
	calls  int
	failAt int // 1-based call index that fails (0 = never)
	err    error
	short  bool
	after   int // calls made after the failure was reported
	failed  bool
	recover bool // fails exactly once, then accepts data again
}

func (s *vwSink) Write(p []byte) (int, error) {
	s.calls++
	if s.failed {
		s.after++
	}
	if s.failAt != 0 && s.calls >= s.failAt && !s.failed {
		s.failed = true
		return 0, s.err
	}
	if s.failed && !s.recover {
		return 0, s.err
	}
	s.b = append(s.b, p...)
	return len(p), nil
}

// vwData is a deterministic, mildly compressible byte pattern: near repeats
// (distance 7) and, when period > 0, a copy of everything period bytes back
// (period is chosen just beyond the window, so a match finder that honours the
// window must not use it).
func vwData(n int) []byte {
	return vwDataP(n, 0)
}

func vwDataP(n int, period int) []byte {
	d := make([]byte, n)
	x := uint32(12345)
	for i := range d {
		x = x*1103515245 + 12345
		if period > 0 && i >= period {
			d[i] = d[i-period]
		} else if period == 0 && (x>>16)&7 < 5 && i >= 7 {
			d[i] = d[i-7]
		} else {
			d[i] = byte('a' + (x>>20)%23)
		}
	}
	return d
}

// vwNew builds a Writer for a setting:
//   0: HuffmanOnly  1: level 1 / 32K  2: level 2 / 32K  3: level 1 / 4K window  4: default(-1) / 4K
//   5: level 1, tiny window W (internal constructor, same parametric code)  6: level 2, tiny window W
func vwNew(setting int, dst io.Writer, tinyW int) *Writer {
	var w *Writer
	var err error
	switch setting {
	case 0:
		w, err = NewWriter(dst, HuffmanOnly)
	case 1:
		w, err = NewWriter(dst, 1)
	case 2:
		w, err = NewWriter(dst, 2)
	case 3:
		w, err = NewWriterwWith4KWindow(dst, 1)
	case 4:
		w, err = NewWriterwWith4KWindow(dst, DefaultCompression)
	case 5:
		w = &Writer{lc: NewDynCompressor(dst, 1, tinyW)}
	case 6:
		w = &Writer{lc: NewDynCompressor(dst, 2, tinyW)}
	}
	verifrt.Assume(err == nil && w != nil)
	return w
}

// vwBig is the write size that certainly fills the internal buffer once.
func vwBig(setting int, tinyW int) int {
	if verifrt.Param("BIGEXACT") == 1 {
		// exactly the internal buffer size
		switch setting {
		case 0:
			return 64 * 1024
		case 1, 2:
			return 2*32*1024 + 258
		case 3, 4:
			return 2*4096 + 258
		}
		return 2*tinyW + 258
	}
	switch setting {
	case 0:
		return 64*1024 + 10
	case 1, 2:
		return 2*32*1024 + 258 + 10
	case 3, 4:
		return 2*4096 + 258 + 10
	}
	return 2*tinyW + 258 + 10
}

func vwWindow(setting int, tinyW int) int {
	switch setting {
	case 0, 1, 2:
		return 32768
	case 3, 4:
		return 4096
	}
	return tinyW
}

const (
	opWrite0 = iota
	opWriteSmall
	opWriteBig
	opFlush
	opClose
	opReset
	opWriteHuge // more than 32767 tokens worth of poorly compressible data (tiny-window settings only)
	opCount
)


// vwNoise is poorly compressible data.
func vwNoise(n int) []byte {
	d := make([]byte, n)
	x := uint32(99991)
	for i := range d {
		x ^= x << 13
		x ^= x >> 17
		x ^= x << 5
		d[i] = byte(x >> 11)
	}
	return d
}

// vwCheckStream decodes emitted bytes with the reference inflater.
// mode 0: must be a complete stream of want; mode 1 (after Flush): must decode to want and then need more input.
func vwCheckStream(b []byte, want []byte, afterFlush bool, label string, maxDist int) {
	r := refInflate(b, refOpts{strict: true, maxOut: len(want) + 8, symStart: -1})
	if afterFlush {
		verifrt.Assert(r.status == refNeedMore, label+":flush-not-resumable")
		verifrt.Assert(r.bitsUsed == 8*len(b), label+":flush-not-byte-aligned")
	} else {
		verifrt.Assert(r.status == refComplete, label+":stream-incomplete")
		verifrt.Assert(r.consumed == len(b), label+":trailing-bytes")
	}
	verifrt.Assert(vhEqual(r.out, want), label+":decoded-bytes")
	if maxDist > 0 {
		verifrt.Assert(r.maxDist <= maxDist, "C19:distance-beyond-window")
	}
}

// VerifWrSeq (C16, C10, C01 structure, C19): an arbitrary sequence of K
// operations (symbolic, case-split by the solver) on a Writer; every call's
// error-ness is compared with the documented automaton of compress/flate's
// Writer (open/closed), nothing may panic, the bytes up to the first successful
// Close are a complete stream, the bytes at every successful Flush decode to all
// data written so far.
func VerifWrSeq() {
	setting := verifrt.Pick("setting", 7)
	K := verifrt.Param("K")
	tinyW := verifrt.Param("W")
	sink := &vwSink{}
	w := vwNew(setting, sink, tinyW)
	big := vwBig(setting, tinyW)
	data := vwData(K*big + 64)
	if verifrt.Param("FAR") == 1 {
		// only repeats just beyond the window
		data = vwDataP(K*big+64, vwWindow(setting, tinyW)+104)
	}
	pos := 0
	var written []byte
	closed := false
	streamStart := 0 // offset in sink.b where the current stream starts
	for i := 0; i < K; i++ {
		op := int(verifrt.U8())
		verifrt.Assume(op < opCount)
		if verifrt.Param("HUGE") == 0 || setting < 5 {
			verifrt.Assume(op != opWriteHuge)
		}
		op = verifrt.Concretize(op)
		switch op {
		case opWriteHuge:
			vwHuge := verifrt.Param("HUGESZ")
			hd := vwNoise(vwHuge)
			k, err := w.Write(hd)
			if closed {
				verifrt.Assert(err != nil, "C16:write-after-close-succeeds")
			} else {
				verifrt.Assert(err == nil && k == vwHuge, "C16:write-fails")
				written = append(written, hd...)
				verifrt.Cover("huge")
			}
		case opWrite0, opWriteSmall, opWriteBig:
			n := 0
			if op == opWriteSmall {
				n = 5
			} else if op == opWriteBig {
				n = big
			}
			verifrt.Assume(pos+n <= len(data))
			k, err := w.Write(data[pos : pos+n])
			if closed {
				verifrt.Assert(err != nil, "C16:write-after-close-succeeds")
			} else {
				verifrt.Assert(err == nil && k == n, "C16:write-fails")
				written = append(written, data[pos:pos+n]...)
			}
			pos += n
		case opFlush:
			err := w.Flush()
			if closed {
				verifrt.Assert(err != nil, "C16:flush-after-close-succeeds")
			} else {
				verifrt.Assert(err == nil, "C16:flush-fails")
				verifrt.Cover("flush")
				vwCheckStream(sink.b[streamStart:], written, true, "C10", vwWindow(setting, tinyW))
			}
		case opClose:
			before := len(sink.b)
			err := w.Close()
			verifrt.Assert(err == nil, "C16:close-fails")
			if closed {
				verifrt.Assert(len(sink.b) == before, "C16:second-close-emits")
			} else {
				verifrt.Cover("close")
				vwCheckStream(sink.b[streamStart:], written, false, "C01", vwWindow(setting, tinyW))
			}
			closed = true
		case opReset:
			w.Reset(sink)
			closed = false
			written = written[:0]
			streamStart = len(sink.b)
		}
	}
}

// VerifStdAutomaton checks the automaton used above against the real standard library Writer.
func VerifStdAutomaton() {
	sink := &vwSink{}
	w, _ := stdflate.NewWriter(sink, 1)
	K := verifrt.Param("K")
	closed := false
	for i := 0; i < K; i++ {
		op := int(verifrt.U8())
		verifrt.Assume(op < opCount && op != opWriteBig)
		op = verifrt.Concretize(op)
		switch op {
		case opWrite0, opWriteSmall:
			_, err := w.Write([]byte("hello")[:5*(op-opWrite0)])
			verifrt.Assert((err != nil) == closed, "REF:std-write-after-close")
		case opFlush:
			err := w.Flush()
			verifrt.Assert((err != nil) == closed, "REF:std-flush-after-close")
		case opClose:
			before := len(sink.b)
			err := w.Close()
			verifrt.Assert(err == nil, "REF:std-close")
			if closed {
				verifrt.Assert(len(sink.b) == before, "REF:std-second-close-emits")
			}
			closed = true
		case opReset:
			w.Reset(sink)
			closed = false
		}
	}
}

// VerifWrFail (C14): the destination fails at its k-th call.
func VerifWrFail() {
	setting := verifrt.Pick("setting", 7)
	K := verifrt.Param("K")
	tinyW := verifrt.Param("W")
	fault := verifrt.ErrValue("dst")
	k := int(verifrt.U8())
	verifrt.Assume(k >= 1 && k <= verifrt.Param("KMAX"))
	sink := &vwSink{failAt: verifrt.Concretize(k), err: fault, recover: verifrt.Pick("recover", 2) == 1}
	w := vwNew(setting, sink, tinyW)
	big := vwBig(setting, tinyW)
	data := vwData(K*big + 64)
	pos := 0
	var written []byte
	closedOK := false
	for i := 0; i < K; i++ {
		op := int(verifrt.U8())
		if verifrt.Param("HUGE") == 1 && setting >= 5 {
			verifrt.Assume((op < opReset && op != opWrite0 && op != opWriteBig) || op == opWriteHuge)
		} else {
			verifrt.Assume(op < opReset && op != opWrite0)
		}
		op = verifrt.Concretize(op)
		wasFailed := sink.failed
		callsBefore := sink.calls
		var err error
		switch op {
		case opWriteHuge:
			hd := vwNoise(verifrt.Param("HUGESZ"))
			_, err = w.Write(hd)
			written = append(written, hd...)
			verifrt.Cover("huge")
		case opWriteSmall, opWriteBig:
			n := 5
			if op == opWriteBig {
				n = big
			}
			verifrt.Assume(pos+n <= len(data))
			_, err = w.Write(data[pos : pos+n])
			written = append(written, data[pos:pos+n]...)
			pos += n
		case opFlush:
			err = w.Flush()
		case opClose:
			err = w.Close()
			if err == nil && !sink.failed {
				closedOK = true
			}
		}
		if wasFailed {
			verifrt.Cover("op-after-failure")
			verifrt.Assert(err != nil, "C14:not-sticky")
			verifrt.Assert(sink.calls == callsBefore, "C14:destination-touched-after-failure")
		} else if sink.failed {
			verifrt.Cover("failure-reported")
			verifrt.Assert(err == fault, "C14:failure-not-reported")
		} else {
			verifrt.Assert(err == nil || closedOK, "C14:spurious-error")
		}
		if closedOK {
			break
		}
	}
	if closedOK && !sink.failed {
		vwCheckStream(sink.b, written, false, "C14", 0)
	}
}

// VerifWrReset (C12): history h1, Reset, history h2 -- against a new Writer doing h2.
func VerifWrReset() {
	setting := verifrt.Pick("setting", 7)
	tinyW := verifrt.Param("W")
	K1 := verifrt.Param("K1")
	K2 := verifrt.Param("K2")
	big := vwBig(setting, tinyW)
	data := vwData((K1+K2)*big + 64)
	if verifrt.Param("REPLAY") == 1 {
		data = vwNoise((K1+K2)*big + 64)
		// 4-byte groups from positions 1 and 4 of the opening come back after the point
		// where a short second stream is flushed, close enough for the tiny window
		copy(data, "0123456789ab456789abUV1234WXYZ")
	}
	old := &vwSink{}
	if verifrt.Pick("oldfails", 2) == 1 {
		old.failAt = 1
		old.err = verifrt.ErrValue("old")
	}
	used := vwNew(setting, old, tinyW)
	pos := 0
	for i := 0; i < K1; i++ {
		op := int(verifrt.U8())
		verifrt.Assume(op < opReset && op != opWrite0)
		op = verifrt.Concretize(op)
		switch op {
		case opWriteSmall:
			used.Write(data[pos : pos+5])
			pos += 5
		case opWriteBig:
			used.Write(data[pos : pos+big])
			pos += big
		case opFlush:
			used.Flush()
		case opClose:
			used.Close()
		}
	}
	a, b := &vwSink{}, &vwSink{}
	used.Reset(a)
	fresh := vwNew(setting, b, tinyW)
	if verifrt.Param("REPLAY") == 1 {
		// the second stream starts with the same bytes as the first one: whatever the
		// match finder still remembers from before Reset now points at equal data
		pos = 0
	}
	for i := 0; i < K2; i++ {
		op := int(verifrt.U8())
		verifrt.Assume(op < opReset && op != opWrite0)
		op = verifrt.Concretize(op)
		var e1, e2 error
		switch op {
		case opWriteSmall:
			_, e1 = used.Write(data[pos : pos+5])
			_, e2 = fresh.Write(data[pos : pos+5])
			pos += 5
		case opWriteBig:
			_, e1 = used.Write(data[pos : pos+big])
			_, e2 = fresh.Write(data[pos : pos+big])
			pos += big
		case opFlush:
			e1, e2 = used.Flush(), fresh.Flush()
		case opClose:
			e1, e2 = used.Close(), fresh.Close()
		}
		verifrt.Assert((e1 == nil) == (e2 == nil), "C12:error-differs")
	}
	if verifrt.Param("REPLAY") == 1 {
		// tokens are only encoded at a block end: finish both streams
		e1, e2 := used.Close(), fresh.Close()
		verifrt.Assert((e1 == nil) == (e2 == nil), "C12:error-differs")
	}
	verifrt.Cover("compared")
	verifrt.Assert(len(a.b) == len(b.b), "C12:output-length-differs")
	verifrt.Assert(vhEqual(a.b, b.b), "C12:output-differs")
}

// VerifWrPartition (C09): the same data with the same Flush position, written
// in one piece and split at a symbolic point (plus a zero-length write).
func VerifWrPartition() {
	setting := verifrt.Pick("setting", 7)
	tinyW := verifrt.Param("W")
	L := verifrt.Param("L")
	F := verifrt.Param("F") // flush position (0 = no flush)
	data := vwData(L)
	run := func(split int) []byte {
		s := &vwSink{}
		w := vwNew(setting, s, tinyW)
		if F > 0 {
			w.Write(data[:F])
			w.Flush()
		}
		if split < 0 {
			w.Write(data[F:])
		} else {
			w.Write(data[F:split])
			w.Write(nil)
			w.Write(data[split:])
		}
		w.Close()
		return s.b
	}
	p := int(verifrt.U32() & 0x3ffff)
	verifrt.Assume(p >= F && p <= L && p >= verifrt.Param("PLO") && p <= verifrt.Param("PHI"))
	p = verifrt.Concretize(p)
	a := run(-1)
	b := run(p)
	verifrt.Cover("compared")
	verifrt.Assert(len(a) == len(b), "C09:output-length-differs")
	verifrt.Assert(vhEqual(a, b), "C09:output-differs")
}

// VerifWrGaps (C01): two byte values x < y (symbolic, case-split) so that every
// run length of unused literal symbols between them, before them and up to the
// end-of-block symbol occurs: exercises the run-length coding of code lengths
// in the dynamic header (symbols 16/17/18 and their boundaries).
func VerifWrGaps() {
	setting := verifrt.Pick("setting", 7)
	tinyW := verifrt.Param("W")
	x := int(verifrt.U8())
	y := int(verifrt.U8())
	verifrt.Assume(x >= verifrt.Param("XLO") && x <= verifrt.Param("XHI") && y > x)
	x = verifrt.Concretize(x)
	y = verifrt.Concretize(y)
	n := verifrt.Param("LEN")
	data := make([]byte, n)
	for i := range data {
		if i%3 == 0 {
			data[i] = byte(y)
		} else {
			data[i] = byte(x)
		}
	}
	sink := &vwSink{}
	w := vwNew(setting, sink, tinyW)
	_, e1 := w.Write(data)
	e2 := w.Close()
	verifrt.Assert(e1 == nil && e2 == nil, "C01:write-fails")
	verifrt.Cover("closed")
	vwCheckStream(sink.b, data, false, "C01", 0)
}

// VerifWrLookahead (C01/C10): a state only the accelerated match finders reach.
// The portable lz77 always leaves 8 bytes of look-ahead unprocessed in a
// non-flushing step (idx < end); the assembly kernels may consume the buffer
// to its end (idx == end) with tokens still pending. The state is built from a
// real one by turning j of the look-ahead bytes into literal tokens, exactly as
// a match finder that found no match would; then the stream is flushed and/or
// closed (and possibly continued) and must still decode to everything written.
func VerifWrLookahead() {
	setting := verifrt.Pick("setting", 7)
	tinyW := verifrt.Param("W")
	pre := verifrt.Param("PRE") // upper bound on the bytes written first
	T := verifrt.Param("T")     // stop right after the T-th non-flushing compression step (buffer just filled)
	data := vwData(pre + 64)
	sink := &vwSink{}
	w := vwNew(setting, sink, tinyW)
	c := w.lc.(*dynCompressor)
	written := 0
	for written < pre && T > 0 {
		before := c.idx
		_, e := w.Write(data[written : written+1])
		verifrt.Assert(e == nil, "C01:write-fails")
		written++
		if c.idx > before {
			T--
		}
	}
	verifrt.Assume(T == 0)
	j := int(verifrt.U8())
	verifrt.Assume(j <= c.end-c.idx)
	j = verifrt.Concretize(j)
	for k := 0; k < j; k++ {
		lit := c.buffer[c.idx]
		c.tokens = append(c.tokens, newToken(uint32(lit), InvalidDist, 0))
		c.hist.literalCodes[lit]++
		c.idx++
		c.processed++
	}
	verifrt.Observe("j", uint64(j))
	verifrt.Observe("left", uint64(c.end-c.idx))
	var e error
	op := int(verifrt.U8())
	verifrt.Assume(op < 4)
	op = verifrt.Concretize(op)
	switch op {
	case 0:
	case 1:
		verifrt.Assert(w.Flush() == nil, "C01:write-fails")
		vwCheckStream(sink.b, data[:written], true, "C10", 0)
	case 2:
		_, e = w.Write(data[written : written+5])
		verifrt.Assert(e == nil, "C01:write-fails")
		written += 5
	case 3:
		_, e = w.Write(data[written : written+5])
		verifrt.Assert(e == nil, "C01:write-fails")
		written += 5
		verifrt.Assert(w.Flush() == nil, "C01:write-fails")
		vwCheckStream(sink.b, data[:written], true, "C10", 0)
	}
	verifrt.Assert(w.Close() == nil, "C01:write-fails")
	verifrt.Cover("closed")
	vwCheckStream(sink.b, data[:written], false, "C01", 0)
}
