//go:build verif

package huffman

import (
	"github.com/intel/fastgo/internal/verifrt"
)

// VerifKHuffGen (C01): code-length generation (unsafe sort of the packed
// lit/count pairs, Moffat's in-place algorithm, length limiting) on a
// histogram with N symbolic counts: every symbol that occurs gets a code,
// nothing else does, no length exceeds the limit, and the lengths form a
// complete prefix code (Kraft sum exactly 1; a single symbol gets length 1).
// LIMIT can be set below the natural depth so that the limiting path runs.
func VerifKHuffGen() {
	n := verifrt.Param("NSYM")
	limit := verifrt.Param("LIMIT")
	size := verifrt.Param("SIZE")
	hist := make([]uint32, size)
	pos := [8]int{0, 1, 3, 4, size - 1, 2, 5, 6}
	var counts [8]uint32
	nz := 0
	for i := 0; i < n; i++ {
		c := uint32(verifrt.U16())
		if verifrt.Param("SMALL") == 1 {
			verifrt.Assume(c <= 40)
		}
		counts[i] = c
		hist[pos[i]] = c
	}
	lens := make([]uint32, size)
	copy(lens, hist)
	l := NewLenLimitedCode()
	l.Generate(limit, lens, lens)
	// a second use of the same generator (scratch reuse) on the same input must agree
	lens2 := make([]uint32, size)
	copy(lens2, hist)
	l.Generate(limit, lens2, lens2)
	kraft := uint32(0)
	for i := 0; i < n; i++ {
		ln := lens[pos[i]]
		verifrt.Assert(lens2[pos[i]] == ln, "C01:huffman-generator-reuse-differs")
		if counts[i] == 0 {
			verifrt.Assert(ln == 0, "C01:huffman-code-for-absent-symbol")
			continue
		}
		nz++
		verifrt.Assert(ln >= 1 && ln <= uint32(limit), "C01:huffman-length-out-of-range")
		kraft += 1 << (uint32(limit) - ln)
	}
	for i := 0; i < size; i++ {
		used := false
		for j := 0; j < n; j++ {
			if pos[j] == i {
				used = true
			}
		}
		if !used {
			verifrt.Assert(lens[i] == 0, "C01:huffman-code-for-absent-symbol")
		}
	}
	if nz == 1 {
		verifrt.Cover("single")
		verifrt.Assert(kraft == 1<<(uint32(limit)-1), "C01:huffman-single-symbol-length")
	} else if nz >= 2 {
		verifrt.Cover("several")
		verifrt.Assert(kraft == 1<<uint32(limit), "C01:huffman-code-not-complete")
	}
	// canonical codes: distinct (code, length) pairs
	codes := make([]uint32, size)
	copy(codes, lens)
	GenerateCode2(codes)
	for i := 0; i < n; i++ {
		for j := i + 1; j < n; j++ {
			if counts[i] != 0 && counts[j] != 0 {
				verifrt.Assert(codes[pos[i]] != codes[pos[j]], "C01:huffman-duplicate-code")
			}
		}
	}
}
