//go:build verif

package flate

import (
	"bufio"
	"bytes"
	"io"
	"strings"

	"github.com/intel/fastgo/internal/verifrt"
)

// ---- source models ----

// vhSrc delivers data in chunks; after the data it returns endErr (io.EOF, a
// fault, or the would-block marker). withLast: the final chunk comes together
// with endErr.
type vhSrc struct {
	data     []byte
	pos      int
	chunk    int // bytes per call (0 = everything)
	split    int // one extra chunk boundary at this offset (0 = none)
	endErr   error
	withLast bool
	calls    int
	askedEnd int   // how many times the source was asked after the data ran out
	outLen   *int  // harness output counter (C11)
	outAtEnd int   // value of *outLen when first asked beyond the data
}

func (s *vhSrc) Read(p []byte) (int, error) {
	s.calls++
	if s.pos >= len(s.data) {
		if s.askedEnd == 0 && s.outLen != nil {
			s.outAtEnd = *s.outLen
		}
		s.askedEnd++
		return 0, s.endErr
	}
	n := len(s.data) - s.pos
	if s.chunk > 0 && n > s.chunk {
		n = s.chunk
	}
	if s.split > s.pos && s.pos+n > s.split {
		n = s.split - s.pos
	}
	if n > len(p) {
		n = len(p)
	}
	copy(p, s.data[s.pos:s.pos+n])
	s.pos += n
	if s.pos >= len(s.data) && s.withLast {
		if s.outLen != nil {
			s.outAtEnd = *s.outLen
		}
		s.askedEnd++
		return n, s.endErr
	}
	return n, nil
}

// vhByteSrc is a custom io.ByteReader source (not a bufio, bytes or strings reader).
type vhByteSrc struct {
	data []byte
	pos  int
}

func (s *vhByteSrc) Read(p []byte) (int, error) {
	if s.pos >= len(s.data) {
		return 0, io.EOF
	}
	n := copy(p, s.data[s.pos:])
	s.pos += n
	return n, nil
}

func (s *vhByteSrc) ReadByte() (byte, error) {
	if s.pos >= len(s.data) {
		return 0, io.EOF
	}
	b := s.data[s.pos]
	s.pos++
	return b, nil
}

func vhReadRest(r io.Reader, max int) []byte {
	var out []byte
	buf := make([]byte, 8)
	for len(out) <= max {
		k, err := r.Read(buf)
		out = append(out, buf[:k]...)
		if err != nil {
			break
		}
	}
	return out
}

// vhOpen builds a fastgo Reader on src through the chosen constructor.
//   ctor 0: NewReader(src)        ctor 1: NewReader(other) then Reset(src)
func vhOpen(src io.Reader, ctor int) io.Reader {
	if ctor == 0 {
		return NewReader(src)
	}
	r := NewReader(bytes.NewReader(nil))
	r.(Resetter).Reset(src, nil)
	return r
}

// VerifRdChunk (C04): the same stream decoded from one piece and from a
// chunked source behind a small bufio.Reader, with different destination sizes.
func VerifRdChunk() {
	ctx := verifrt.Pick("ctx", 100)
	mode := verifrt.Pick("chunk", 4) // 0: 1 byte per call; 1: split at symbolic offset; 2: all data together with io.EOF; 3: 3 bytes per call
	bsize := verifrt.Pick("bufio", 4)
	n := verifrt.Param("N")
	M := verifrt.Param("M")
	s := verifrt.Bytes(n)
	c := vhBuild(ctx, s)
	ref := refInflate(c.stream, refOpts{strict: false, maxOut: M + c.preOut, symStart: c.symStart})
	verifrt.Assume(ref.status != refTooLong && ref.status != refSkip)

	a := NewReader(bytes.NewReader(c.stream))
	aout, aerr, _ := vhDrain(a, 64, M+c.preOut+300)

	src := &vhSrc{data: c.stream, endErr: io.EOF}
	switch mode {
	case 0:
		src.chunk = 1
	case 1:
		p := verifrt.Int()
		lo := c.symStart/8 - verifrt.Param("SPLITBACK")
		if lo < 1 {
			lo = 1
		}
		verifrt.Assume(p >= lo && p < len(c.stream))
		src.split = verifrt.Concretize(p)
	case 2:
		src.withLast = true
	case 3:
		src.chunk = 3
	}
	sizes := [4]int{16, 17, 64, 4096}
	br := bufio.NewReaderSize(src, sizes[bsize])
	b := vhOpen(br, 1)
	bout, berr, stalls := vhDrain(b, verifrt.Param("B2"), M+c.preOut+300)
	verifrt.ObserveBytes("stream", c.stream)
	verifrt.ObserveBytes("aout", aout)
	verifrt.ObserveBytes("bout", bout)
	verifrt.Observe("ak", uint64(vhErrKind(aerr)))
	verifrt.Observe("bk", uint64(vhErrKind(berr)))
	verifrt.Cover("ran")
	if ref.status == refNeedMore {
		verifrt.Cover("truncated")
	}
	verifrt.Assert(stalls == 0, "C04:progress")
	verifrt.Assert(vhEqual(aout, bout), "C04:bytes")
	verifrt.Assert(vhErrKind(aerr) == vhErrKind(berr), "C04:error-kind")
}

// VerifRdPos (C05): after io.EOF the source is positioned at the end of the stream.
func VerifRdPos() {
	ctx := verifrt.Pick("ctx", 100)
	kind := verifrt.Pick("src", 8)
	ctor := verifrt.Pick("ctor", 2)
	n := verifrt.Param("N")
	M := verifrt.Param("M")
	s := verifrt.Bytes(n)
	c := vhBuild(ctx, s)
	ref := refInflate(c.stream, refOpts{strict: true, maxOut: M + c.preOut, symStart: c.symStart})
	verifrt.Assume(ref.status == refComplete)
	tail := verifrt.Bytes(3)
	full := append(append([]byte(nil), c.stream[:ref.consumed]...), tail...)
	var src io.Reader
	switch kind {
	case 0:
		src = bufio.NewReaderSize(bytes.NewReader(full), 16)
	case 1:
		src = bufio.NewReaderSize(bytes.NewReader(full), 64)
	case 2:
		src = bufio.NewReaderSize(bytes.NewReader(full), 4096)
	case 3:
		src = bufio.NewReaderSize(bytes.NewReader(full), 8192)
	case 4:
		src = bytes.NewReader(full)
	case 5:
		src = bytes.NewBuffer(full)
	case 6:
		src = strings.NewReader(string(full))
	case 7:
		src = &vhByteSrc{data: full}
	}
	r := vhOpen(src, ctor)
	out, err, _ := vhDrain(r, 8, M+c.preOut+300)
	verifrt.ObserveBytes("full", full)
	verifrt.ObserveBytes("out", out)
	verifrt.Assume(err == io.EOF) // C02 owns "EOF is reached"
	verifrt.Cover("eof")
	if verifrt.Param("REUSE") == 1 {
		// the Reader is reused on another source that is not a *bufio.Reader; the first
		// source belongs to the caller and must stay where the first stream ended
		rs, ok := r.(Resetter)
		verifrt.Assert(ok, "C13:not-a-resetter")
		rs.Reset(bytes.NewReader([]byte{0x4b, 0x4c, 0x4a, 0x06, 0x00, 0x77}), nil)
		out2, err2, _ := vhDrain(r, 8, 100)
		verifrt.Assert(err2 == io.EOF && string(out2) == "abc", "C13:bytes")
	}
	rest := vhReadRest(src, 16)
	verifrt.ObserveBytes("rest", rest)
	verifrt.Assert(vhEqual(rest, tail), "C05:source-position")
}

// VerifRdFail (C15): the source fails after k bytes with a distinct error.
func VerifRdFail() {
	ctx := verifrt.Pick("ctx", 100)
	with := verifrt.Pick("with", 2) // error alone / together with the last bytes
	n := verifrt.Param("N")
	M := verifrt.Param("M")
	s := verifrt.Bytes(n)
	c := vhBuild(ctx, s)
	ref := refInflate(c.stream, refOpts{strict: true, maxOut: M + c.preOut, symStart: c.symStart})
	verifrt.Assume(ref.status == refComplete)
	k := verifrt.Int()
	verifrt.Assume(k >= 0 && k < ref.consumed)
	k = verifrt.Concretize(k)
	fault := verifrt.ErrValue("src")
	if verifrt.Param("WRAPEOF") == 1 {
		// a transport error that wraps io.EOF (errors.Is(err, io.EOF) is true, err != io.EOF)
		fault = &vhWrapEOF{}
	}
	src := &vhSrc{data: c.stream[:k], endErr: fault, withLast: with == 1 && k > 0}
	r := vhOpen(bufio.NewReaderSize(src, 16), 1)
	out, err, stalls := vhDrain(r, 5, M+c.preOut+300)
	verifrt.ObserveBytes("stream", c.stream)
	verifrt.Observe("k", uint64(k))
	verifrt.ObserveBytes("out", out)
	verifrt.Cover("faulted")
	verifrt.Assert(stalls == 0, "C15:progress")
	verifrt.Assert(err == fault, "C15:error-identity")
	verifrt.Assert(vhPrefix(out, ref.out), "C15:prefix")
	var b2 [4]byte
	k2, e2 := r.Read(b2[:])
	verifrt.Assert(k2 == 0 && e2 == fault, "C15:sticky")
}

// VerifRdGate (C11): the source has delivered everything up to a sync-flush
// point (or the end of the stream); the next request to the source is the
// "would block" event. All data encoded before that point must have been
// handed out before the event happens.
func VerifRdGate() {
	ctx := verifrt.Pick("ctx", 100)
	bsize := verifrt.Pick("bufio", 3)
	n := verifrt.Param("N")
	M := verifrt.Param("M")
	s := verifrt.Bytes(n)
	c := vhBuild(ctx, s)
	ref := refInflate(c.stream, refOpts{strict: true, maxOut: M + c.preOut, symStart: c.symStart})
	verifrt.Assume(ref.status == refComplete || (ref.status == refNeedMore && len(ref.syncAt) > 0))
	// gate position: the end of the stream, or the last sync point seen
	gate := ref.consumed
	want := len(ref.out)
	atEnd := ref.status == refComplete
	if !atEnd {
		gate = ref.syncAt[len(ref.syncAt)-1]
		want = ref.syncOut[len(ref.syncOut)-1]
		verifrt.Cover("sync-point")
	} else {
		verifrt.Cover("stream-end")
	}
	block := verifrt.ErrValue("would-block")
	got := 0
	src := &vhSrc{data: c.stream[:gate], endErr: block, outLen: &got}
	sizes := [3]int{16, 64, 4096}
	r := vhOpen(bufio.NewReaderSize(src, sizes[bsize]), 1)
	buf := make([]byte, 8)
	if c.preOut > 1000 {
		// contexts with a 64 KiB prefix: larger reads, or the loop bound below is what ends the run
		buf = make([]byte, 4096)
	}
	var err error
	for i := 0; i < 400 && err == nil; i++ {
		var k int
		k, err = r.Read(buf)
		got += k
		if got >= want && !atEnd {
			break
		}
	}
	verifrt.Observe("gate", uint64(gate))
	verifrt.Observe("want", uint64(want))
	verifrt.Observe("got", uint64(got))
	if src.askedEnd > 0 {
		verifrt.Assert(src.outAtEnd >= want, "C11:blocked-before-delivery")
	}
	if atEnd {
		verifrt.Assert(err == io.EOF, "C11:eof-needs-more-input")
	} else {
		verifrt.Assert(got >= want, "C11:data-withheld")
	}
}

type vhWrapEOF struct{}

func (*vhWrapEOF) Error() string { return "connection reset (EOF)" }
func (*vhWrapEOF) Unwrap() error { return io.EOF }
