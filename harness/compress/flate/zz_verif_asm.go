//go:build verif && amd64 && !noasmtest

package flate

import (
	"bufio"
	"bytes"

	"github.com/intel/fastgo/internal/cpu"
	"github.com/intel/fastgo/internal/verifrt"
)

// vhBuildLong: like vhBuild, but the window sits inside one block that goes on
// with at least 40 concrete bytes, so the assembly fast path (which needs more
// than 24 input bytes) is taken.
//   0: fixed block, window first      1: fixed block, 300 bytes produced, then window
//   2: dynamic template 2, window     3: dynamic template 5 (long distance codes), window after "aa"
func vhBuildLong(ctx int, s []byte) vhCtx {
	w := &vbw{}
	c := vhCtx{}
	tail := &vbw{}
	switch ctx {
	case 0, 1:
		w.bits(1, 1)
		w.bits(1, 2)
		if ctx == 1 {
			vbFixedSym(w, 'a')
			vbFixedMatch(w, 258, 1)
			vbFixedMatch(w, 41, 1)
			c.preOut = 300
		}
		for i := 0; i < 44; i++ {
			vbFixedSym(tail, 'x')
		}
		vbFixedSym(tail, 256)
	case 6:
		// a byte-aligned window after 41 bytes of non-repeating output: every
		// (length, distance) pair a two-byte window can hold, so that each of the
		// match-copy strategies of the assembly (overlapping, 16-byte chunks, ...) moves
		// distinguishable bytes
		w.bits(1, 1)
		w.bits(1, 2)
		vbFixedSym(w, 200)    // 9 bits
		vbFixedMatch(w, 3, 1) // 12 bits: the window starts at bit 24
		for i := 0; i < 37; i++ {
			vbFixedSym(w, 'a'+i%26)
		}
		c.preOut = 41
		if verifrt.Param("LITCAP") == 1 && len(s) > 0 {
			// quick tier: the window starts with a length symbol (fixed codes 0000000..0010111,
			// most significant code bit first)
			verifrt.Assume(s[0]&3 == 0 && (s[0]&4 == 0 || s[0]&8 == 0))
		}
		for i := 0; i < 44; i++ {
			vbFixedSym(tail, 'x')
		}
		vbFixedSym(tail, 256)
	case 4:
		// hand-over at the end of the output window: the block has produced
		// 65536-274-K bytes (just below the point where the assembly loop stops
		// being entered), the window holds the symbols that cross it, and only
		// TAIL literal bytes follow, so the assembly loop runs out of input right
		// after the crossing symbol and hands over to the Go loop.
		w.bits(1, 1)
		w.bits(1, 2)
		vbFixedSym(w, 'a')
		produced := 1
		target := 2*historySize - outBufferSlop - verifrt.Param("K")
		for produced < target {
			n := target - produced
			if n > 258 {
				n = 258
			}
			if n < 3 {
				for ; n > 0; n-- {
					vbFixedSym(w, 'a')
					produced++
				}
				break
			}
			vbFixedMatch(w, n, 1)
			produced += n
		}
		c.preOut = produced
		// the number of literal bytes after the window is symbolic: where the
		// assembly loop runs out of input relative to the crossing symbol depends on it
		t := verifrt.Int()
		verifrt.Assume(t >= verifrt.Param("TAILLO") && t <= verifrt.Param("TAIL"))
		t = verifrt.Concretize(t)
		for i := 0; i < t; i++ {
			vbFixedSym(tail, 'x')
		}
		vbFixedSym(tail, 256)
	case 2, 3, 5:
		t := 2
		if ctx == 3 {
			t = 5
		}
		if ctx == 5 {
			t = 17 // length 258 and end-of-block on 15-bit (long-table) codes
		}
		lit, dist := vhTemplate(t)
		d := vbDynHeader(w, true, lit, dist, false)
		if ctx == 3 || ctx == 5 {
			d.sym(w, 97)
			d.sym(w, 97)
			c.preOut = 2
		}
		ts := 97
		if ctx == 5 {
			ts = 98 // 'a' has a 1-bit code in template 17: use the 2-bit literal for the tail
		}
		for i := 0; i < 200; i++ {
			d.sym(tail, ts)
		}
		d.sym(tail, 256)
	}
	c.symStart = w.bitLen()
	c = vhMerge(w, s, c)
	c.stream = append(c.stream, tail.bytes()...)
	// a few bytes after the stream (source position)
	c.stream = append(c.stream, 0xA5, 0x5A, 0xC3)
	return c
}

// VerifAsmDiff (C18, decode direction): the same stream decoded at acceleration
// level 0 (Go loop) and level 3 (decode_amd64.go dispatch + decodeHuffmanAsmArchV3
// executed from the current decode_amd64.s).
func VerifAsmDiff() {
	ctx := verifrt.Pick("ctx", 7)
	n := verifrt.Param("N")
	M := verifrt.Param("M")
	s := verifrt.Bytes(n)
	c := vhBuildLong(ctx, s)
	ro := refOpts{strict: false, maxOut: M + c.preOut + 210, symStart: -1}
	if ctx == 6 {
		// the window may produce up to M bytes (the tail produces 44)
		ro.maxOut = c.preOut + 44 + M
	}
	if ctx == 4 {
		// keep the window to what matters here: short-distance matches crossing the limit
		ro.distCap = 2
	}
	if ctx == 5 {
		// 1-bit literal code: at most two literals may start inside the window
		ro.litCap = 2
		ro.capFrom = c.symStart
		ro.capTo = c.symStart + 8*n
	}
	ref := refInflate(c.stream, ro)
	verifrt.Assume(ref.status != refTooLong && ref.status != refSkip)
	if ctx == 4 {
		verifrt.Assume(len(ref.out) >= c.preOut+3)
	}

	run := func(level int) ([]byte, int, int) {
		cpu.ArchLevel = level
		br := bufio.NewReaderSize(bytes.NewReader(c.stream), 4096)
		r := NewReader(br)
		out, err, _ := vhDrain(r, 64, M+c.preOut+600)
		cpu.ArchLevel = 0
		return out, vhErrKind(err), br.Buffered()
	}
	aout, ak, apos := run(0)
	bout, bk, bpos := run(3)
	verifrt.ObserveBytes("stream", c.stream)
	verifrt.ObserveBytes("go", aout)
	verifrt.ObserveBytes("asm", bout)
	verifrt.Observe("gokind", uint64(ak))
	verifrt.Observe("asmkind", uint64(bk))
	verifrt.Cover("ran")
	if ref.status == refComplete {
		verifrt.Cover("complete")
	}
	verifrt.Assert(vhEqual(aout, bout), "C18:bytes")
	verifrt.Assert(ak == bk, "C18:outcome-kind")
	if ak == 1 && bk == 1 {
		verifrt.Assert(apos == bpos, "C18:source-position")
	}
}
