//go:build verif

package flate

import (
	"bytes"
	stdflate "compress/flate"
	"io"

	"github.com/intel/fastgo/internal/verifrt"
)

// ---- contexts: stream = prefix ++ window ++ suffix ----

type vhCtx struct {
	stream   []byte
	symStart int // first symbolic bit
	preOut   int // bytes the concrete prefix decodes to
	name     string
}

// template code-length vectors (DESIGN.md appendix B)
func vhTemplate(t int) (lit []uint8, dist []uint8) {
	lit = make([]uint8, 286)
	switch t {
	case 1: // minimal: two literals + EOB, single distance code
		lit[97], lit[98], lit[256] = 1, 2, 2
		lit = lit[:257]
		dist = []uint8{1}
	case 2: // matches of length 3/4, complete codes
		lit[97], lit[98], lit[256], lit[257], lit[258] = 2, 2, 2, 3, 3
		lit = lit[:259]
		dist = []uint8{1, 1}
	case 3: // 15-bit codes beside a 1-bit code
		lit[97] = 1
		for i := 0; i < 13; i++ {
			lit[98+i] = uint8(2 + i)
		}
		lit[111], lit[256] = 15, 15
		lit = lit[:257]
		dist = []uint8{1, 1}
	case 5: // long distance codes
		lit[97], lit[256], lit[257] = 1, 2, 2
		lit = lit[:258]
		dist = make([]uint8, 16)
		for i := 0; i < 14; i++ {
			dist[i] = uint8(1 + i)
		}
		dist[14], dist[15] = 15, 15
		dist[13] = 14
	case 6: // length 258 + single distance code
		lit[97], lit[256], lit[257], lit[285] = 2, 2, 2, 2
		dist = []uint8{1}
	case 7: // no distance code at all
		lit[97], lit[256], lit[257] = 1, 2, 2
		lit = lit[:258]
		dist = []uint8{0}
	case 8: // the fixed code sent as a dynamic header (RLE crossing the lit/dist boundary)
		for i := 0; i < 144; i++ {
			lit[i] = 8
		}
		for i := 144; i < 256; i++ {
			lit[i] = 9
		}
		for i := 256; i < 280; i++ {
			lit[i] = 7
		}
		for i := 280; i < 286; i++ {
			lit[i] = 8
		}
		// 286,287 missing makes the code incomplete: use 285:7 ... keep Kraft complete:
		// 144*2^-8+112*2^-9+24*2^-7+6*2^-8 = 0.5625+0.21875+0.1875+0.0234 = 0.992 -> incomplete.
		// make it complete by shortening: two more codes of length 8 are missing -> give 284,285 length 7
		lit[284], lit[285] = 7, 7
		dist = make([]uint8, 30)
		for i := range dist {
			dist[i] = 5
		}
		dist[28], dist[29] = 4, 4 // 28*2^-5 + 2*2^-4 = 1
		// make a run of equal lengths cross the lit/dist boundary: lit[283..285] ... dist[0..]
	case 14: // a run of equal lengths crosses the literal/distance boundary (RLE symbol 16 spanning both alphabets)
		lit[97], lit[256], lit[257], lit[258] = 1, 2, 3, 3
		lit = lit[:259]
		dist = []uint8{3, 3, 3, 3, 3, 3, 3, 3}
	case 17: // the length-258 symbol (285) and end-of-block on 15-bit codes: long-code table entries for length symbols
		lit[97] = 1
		for i := 0; i < 13; i++ {
			lit[98+i] = uint8(2 + i)
		}
		lit[285], lit[256] = 15, 15
		dist = []uint8{1, 1}
	case 15: // distance code over-subscribed only by its 15-bit code
		lit[97], lit[98], lit[256], lit[257], lit[258] = 2, 2, 2, 3, 3
		lit = lit[:259]
		dist = []uint8{1, 1, 15}
	case 16: // distance code 1,2,...,14,15,15,15: over-subscribed at depth 15
		lit[97], lit[98], lit[256], lit[257], lit[258] = 2, 2, 2, 3, 3
		lit = lit[:259]
		dist = make([]uint8, 17)
		for i := 0; i < 14; i++ {
			dist[i] = uint8(i + 1)
		}
		dist[14], dist[15], dist[16] = 15, 15, 15
	case 9: // under-subscribed lit/len code
		lit[97], lit[98], lit[256] = 2, 2, 3
		lit = lit[:257]
		dist = []uint8{1, 1}
	case 10: // incomplete distance code with a hole
		lit[97], lit[98], lit[256], lit[257], lit[258] = 2, 2, 2, 3, 3
		lit = lit[:259]
		dist = []uint8{2, 2, 3}
	case 12: // all extra-bit widths
		lit[97], lit[256] = 2, 3
		for i := 257; i < 286; i++ {
			lit[i] = 6
		}
		// 1/4 + 1/8 + 29/64 = 0.828 -> add fillers
		lit[98], lit[99] = 4, 4 // +1/8 = 0.953
		lit[100] = 5            // 0.984
		lit[101] = 6            // 1.0
		dist = make([]uint8, 30)
		for i := range dist {
			dist[i] = 5
		}
		dist[28], dist[29] = 4, 4
	}
	return
}

// vhBuild assembles the stream for context ctx around the symbolic window s.
//   0 fresh                        window at stream start
//   1 fixed300                     non-final fixed block producing 300 bytes + sync, then window
//   2 fixedOdd (param K)           non-final fixed block with K nine-bit literals, window merges mid-byte
//   10+t dynamic template t, non-final header then window = payload, suffix = final empty stored block
//   30+t dynamic template t, final header, window = payload
//   50+t template t as SECOND block after a complete fixed block and after template 2 (stale tables)
func vhBuild(ctx int, s []byte) vhCtx {
	w := &vbw{}
	c := vhCtx{}
	switch {
	case ctx == 0:
		c.stream = s
		c.symStart = 0
		return c
	case ctx == 1:
		w.bits(0, 1)
		w.bits(1, 2)
		vbFixedSym(w, 'a')
		vbFixedMatch(w, 258, 1)
		vbFixedMatch(w, 41, 1)
		vbFixedSym(w, 256)
		vbStored(w, false, nil)
		p := w.bytes()
		c.preOut = 300
		c.symStart = 8 * len(p)
		c.stream = append(p, s...)
		return c
	case ctx == 2:
		k := verifrt.Param("K")
		w.bits(0, 1)
		w.bits(1, 2)
		vbFixedSym(w, 'a')
		for i := 0; i < k; i++ {
			vbFixedSym(w, 200)
		}
		vbFixedSym(w, 256)
		c.preOut = 1 + k
		c.symStart = w.bitLen()
		return vhMerge(w, s, c)
	case ctx == 3:
		// edge64K: a fixed block that has produced 65536-K bytes and is still open;
		// the window continues it, so its first symbols hit the end of the 64 KiB
		// output window (overflow carry-over fields, history slide)
		k := verifrt.Param("K")
		w.bits(0, 1)
		w.bits(1, 2)
		vbFixedSym(w, 'a')
		produced := 1
		target := 2*historySize - k
		for produced+258 <= target {
			vbFixedMatch(w, 258, 1)
			produced += 258
		}
		for produced < target {
			n := target - produced
			if n > 258 {
				n = 258
			}
			if n < 3 {
				for ; n > 0; n-- {
					vbFixedSym(w, 'a')
					produced++
				}
				break
			}
			vbFixedMatch(w, n, 1)
			produced += n
		}
		c.preOut = produced
		c.symStart = w.bitLen()
		return vhMerge(w, s, c)
	case ctx == 6 || ctx == 90:
		// edge64K inside a dynamic block with very short codes (template 6: 'a', EOB,
		// length 3 and length 258 all 2 bits, one distance code), so that packed
		// pair/triple table entries (literal+EOB, literal+literal+EOB, literal+length)
		// are looked up exactly at the end of the 64 KiB output window
		k := verifrt.Param("K")
		lit, dist := vhTemplate(6)
		d := vbDynHeader(w, ctx == 90, lit, dist, false)
		d.sym(w, 97)
		produced := 1
		target := 2*historySize - k
		for produced+258 <= target {
			d.match(w, 258, 1)
			produced += 258
		}
		for produced+3 <= target {
			d.match(w, 3, 1)
			produced += 3
		}
		for produced < target {
			d.sym(w, 97)
			produced++
		}
		c.preOut = produced
		c.symStart = w.bitLen()
		c = vhMerge(w, s, c)
		if ctx == 90 {
			// final block: the stream ends inside the window (source position at the window edge)
			return c
		}
		w2 := &vbw{}
		vbStored(w2, true, []byte("XYZ"))
		c.stream = append(c.stream, w2.bytes()...)
		return c
	case ctx == 7:
		// a non-final stored block with symbolic LEN/NLEN/data, followed (inside the
		// window) by whatever comes next: short stored blocks leave whole bytes in the bit buffer
		w.bits(0, 1)
		w.bits(0, 2)
		p := w.bytes()
		c.symStart = 8 * len(p)
		c.stream = append(p, s...)
		return c
	case ctx == 8:
		// as 7, followed by 20 zero bytes: whatever goes wrong in the window, the input does not run out
		w.bits(0, 1)
		w.bits(0, 2)
		p := w.bytes()
		c.symStart = 8 * len(p)
		c.stream = append(append(p, s...), make([]byte, 20)...)
		return c
	case ctx == 93:
		// a fixed block fills the output to 65536-K and ends; a final stored block with
		// symbolic data follows: the copy of a stored block across the end of the output
		// window (and, with small source reads, across input pieces)
		k := verifrt.Param("K")
		w.bits(0, 1)
		w.bits(1, 2)
		vbFixedSym(w, 'a')
		produced := 1
		target := 2*historySize - k
		for produced+258 <= target {
			vbFixedMatch(w, 258, 1)
			produced += 258
		}
		for produced < target {
			n := target - produced
			if n < 3 {
				for ; n > 0; n-- {
					vbFixedSym(w, 'a')
					produced++
				}
				break
			}
			vbFixedMatch(w, n, 1)
			produced += n
		}
		vbFixedSym(w, 256)
		c.preOut = produced
		w.bits(1, 1)
		w.bits(0, 2)
		if w.n > 0 {
			w.bits(0, int(8-w.n))
		}
		w.bits(uint32(len(s)), 16)
		w.bits(uint32(len(s))^0xffff, 16)
		c.symStart = w.bitLen()
		c.stream = append(w.bytes(), s...)
		return c
	case ctx == 94:
		// far back-references: a fixed block produces P = K bytes with period 26, then one
		// match of length ML whose distance symbol DS is concrete and whose extra bits are
		// symbolic within [XLO, XHI]; end-of-block. P below 65536 (no slide yet, match may
		// cross the end of the output window) or above it (after the history slide).
		P := verifrt.Param("K")
		w.bits(1, 1)
		w.bits(1, 2)
		for i := 0; i < 26; i++ {
			vbFixedSym(w, 'a'+i)
		}
		produced := 26
		for produced+258 <= P {
			vbFixedMatch(w, 258, 26)
			produced += 258
		}
		for produced < P {
			n := P - produced
			if n < 3 {
				for ; n > 0; n-- {
					vbFixedSym(w, 'A'+produced%26)
					produced++
				}
				break
			}
			vbFixedMatch(w, n, 26)
			produced += n
		}
		c.preOut = produced
		ml := verifrt.Param("ML")
		lsym, lextra, lbits := vbLenSym(ml)
		vbFixedSym(w, lsym)
		w.bits(uint32(lextra), lbits)
		ds := verifrt.Param("DS")
		w.huff(uint32(ds), 5)
		eb := 0
		if ds >= 4 {
			eb = ds/2 - 1
		}
		e := (uint32(s[0]) | uint32(s[1])<<8) & (1<<uint(eb) - 1)
		verifrt.Assume(int(e) >= verifrt.Param("XLO") && int(e) <= verifrt.Param("XHI"))
		c.symStart = w.bitLen()
		w.bits(e, eb)
		vbFixedSym(w, 256)
		c.stream = w.bytes()
		return c
	case ctx == 92:
		// a complete final dynamic block (template K, run-length coded header, empty body,
		// end-of-block, then zero bytes) in which the bits [BLO, BHI) are symbolic: header
		// fields, code-length code lengths or code-length symbols, a few bits at a time
		lit, dist := vhTemplate(verifrt.Param("K"))
		d := vbDynHeader(w, true, lit, dist, true)
		c.preOut = 0
		d.sym(w, 256)
		t := append(w.bytes(), make([]byte, 16)...)
		lo, hi := verifrt.Param("BLO"), verifrt.Param("BHI")
		if cnt := verifrt.Param("BCOUNT"); cnt > 1 {
			// one run sweeps BCOUNT windows, BSTEP bits apart (a case split like the window value)
			i := int(verifrt.U8())
			verifrt.Assume(i < cnt)
			i = verifrt.Concretize(i)
			lo += i * verifrt.Param("BSTEP")
			hi += i * verifrt.Param("BSTEP")
		}
		first := lo / 8
		verifrt.Assume(first+len(s) <= len(t))
		for i := range s {
			var mask byte
			for b := 0; b < 8; b++ {
				pos := 8*(first+i) + b
				if pos >= lo && pos < hi {
					mask |= 1 << uint(b)
				}
			}
			v := s[i] & mask
			if verifrt.Param("CONC") == 1 {
				// code-length code lengths and code-length symbols: table construction over
				// symbolic lengths is too slow for the solver; every value of the window
				// bits becomes its own concrete case (solver-enumerated, nothing left out)
				v = byte(verifrt.Concretize(int(v)))
			}
			t[first+i] = t[first+i]&^mask | v
		}
		c.symStart = lo
		c.stream = t
		return c
	case ctx == 91:
		// a dynamic block header whose code-length symbol stream is symbolic from a
		// position near the literal/distance boundary on: HLIT/HDIST/HCLEN and the
		// code-length code are concrete (0..15 five bits, 16/17/18 two/three/three bits),
		// the first code-length symbols bring the entry index to 257+HL-K, then the window
		// (literal lengths, repeats that run up to, across or past the boundary and the
		// end), then zero bytes (which read as "repeat the previous length")
		hl := verifrt.Param("HL")
		hd := verifrt.Param("HD")
		k := verifrt.Param("K")
		w.bits(1, 1)
		w.bits(2, 2)
		w.bits(uint32(hl), 5)
		w.bits(uint32(hd), 5)
		var clLens [19]uint8
		for i := 0; i < 16; i++ {
			clLens[i] = 5
		}
		clLens[16], clLens[17], clLens[18] = 2, 3, 3
		clCodes := vbCanon(clLens[:])
		order := [19]int{16, 17, 18, 0, 8, 7, 9, 6, 10, 5, 11, 4, 12, 3, 13, 2, 14, 1, 15}
		w.bits(15, 4)
		for _, o := range order {
			w.bits(uint32(clLens[o]), 3)
		}
		put := func(sym int, extra uint32, eb int) {
			w.huff(uint32(clCodes[sym]), int(clLens[sym]))
			w.bits(extra, eb)
		}
		target := 257 + hl - k
		put(18, 97-11, 7) // entries 0..96 unused
		put(2, 0, 0)      // 'a': 2 bits
		idx := 98
		for target-idx >= 11 {
			run := target - idx
			if run > 138 {
				run = 138
			}
			put(18, uint32(run-11), 7)
			idx += run
		}
		for target-idx >= 3 {
			run := target - idx
			if run > 10 {
				run = 10
			}
			put(17, uint32(run-3), 3)
			idx += run
		}
		for idx < target {
			put(0, 0, 0)
			idx++
		}
		c.symStart = w.bitLen()
		if verifrt.Param("CONC") == 1 {
			// a whole symbolic length symbol in the window: one concrete case per value
			for i := range s {
				s[i] = byte(verifrt.Concretize(int(s[i])))
			}
		}
		c = vhMerge(w, s, c)
		c.stream = append(c.stream, make([]byte, 24)...)
		return c
	case ctx == 9:
		// as 7, followed by bytes that complete an empty stored block and a final empty
		// fixed block IF the last window bytes are zero: anything that turns the bytes
		// after a short stored block into zeros ends in a false io.EOF
		w.bits(0, 1)
		w.bits(0, 2)
		p := w.bytes()
		c.symStart = 8 * len(p)
		c.stream = append(append(p, s...), 0x00, 0xff, 0xff, 0x03, 0x00)
		return c
	case ctx == 4:
		// final stored block: header concrete, LEN/NLEN/data symbolic
		w.bits(1, 1)
		w.bits(0, 2)
		p := w.bytes()
		c.symStart = 8 * len(p)
		c.stream = append(p, s...)
		return c
	case ctx == 5:
		// final stored block after a fixed block that ends mid-byte (bit buffer not empty)
		w.bits(0, 1)
		w.bits(1, 2)
		vbFixedSym(w, 'a')
		vbFixedSym(w, 256)
		w.bits(1, 1)
		w.bits(0, 2)
		p := w.bytes()
		c.preOut = 1
		c.symStart = 8 * len(p)
		c.stream = append(p, s...)
		return c
	case ctx >= 70 && ctx < 90:
		// dynamic template, non-final, window, then a final stored block with 24 data
		// bytes (the input goes on well past the header and the window)
		lit, dist := vhTemplate(ctx - 70)
		vbDynHeader(w, false, lit, dist, ctx-70 == 8 || ctx-70 == 14)
		c.symStart = w.bitLen()
		c = vhMerge(w, s, c)
		w2 := &vbw{}
		vbStored(w2, true, []byte("0123456789abcdefghijklmn"))
		c.stream = append(c.stream, w2.bytes()...)
		return c
	case ctx >= 10 && ctx < 30:
		lit, dist := vhTemplate(ctx - 10)
		vbDynHeader(w, false, lit, dist, ctx-10 == 8 || ctx-10 == 14)
		c.symStart = w.bitLen()
		c = vhMerge(w, s, c)
		w2 := &vbw{}
		vbStored(w2, true, nil)
		c.stream = append(c.stream, w2.bytes()...)
		return c
	case ctx >= 30 && ctx < 50:
		lit, dist := vhTemplate(ctx - 30)
		vbDynHeader(w, true, lit, dist, ctx-30 == 8 || ctx-30 == 14)
		c.symStart = w.bitLen()
		return vhMerge(w, s, c)
	case ctx >= 50 && ctx < 70:
		// complete block with template 2 first (fills both tables), then template t
		lit2, dist2 := vhTemplate(2)
		d := vbDynHeader(w, false, lit2, dist2, false)
		d.sym(w, 97)
		d.sym(w, 98)
		d.match(w, 3, 2)
		d.sym(w, 256)
		c.preOut = 5
		lit, dist := vhTemplate(ctx - 50)
		vbDynHeader(w, true, lit, dist, false)
		c.symStart = w.bitLen()
		return vhMerge(w, s, c)
	}
	verifrt.Assume(false)
	return c
}

// vhMerge appends the window so that it starts at the current bit position:
// the boundary byte keeps the prefix bits in its low part.
func vhMerge(w *vbw, s []byte, c vhCtx) vhCtx {
	k := w.n // pending bits
	if k == 0 {
		c.stream = append(w.buf, s...)
		return c
	}
	low := byte(w.acc)
	mask := byte(1<<k) - 1
	out := append([]byte(nil), w.buf...)
	if len(s) > 0 {
		out = append(out, low|(s[0]&^mask))
		out = append(out, s[1:]...)
	} else {
		out = append(out, low)
	}
	c.stream = out
	return c
}

func vhErrKind(err error) int {
	if err == nil {
		return 0
	}
	if err == io.EOF {
		return 1
	}
	if err == io.ErrUnexpectedEOF {
		return 2
	}
	if _, ok := err.(CorruptInputError); ok {
		return 3
	}
	return 4
}

// VerifRdOracle: fastgo's Reader against the reference inflater and the
// standard library on the same symbolic window (properties C02 and C03).
func VerifRdOracle() {
	ctx := verifrt.Pick("ctx", 100)
	n := verifrt.Param("N")
	M := verifrt.Param("M")
	bsz := verifrt.Param("B")
	s := verifrt.Bytes(n)
	c := vhBuild(ctx, s)

	litCap := verifrt.Param("LITCAP")
	strict := refInflate(c.stream, refOpts{strict: true, maxOut: M + c.preOut, symStart: c.symStart, litCap: litCap, capFrom: c.symStart, capTo: c.symStart + 8*n})
	verifrt.Assume(strict.status != refTooLong && strict.status != refSkip)
	perm := strict
	if strict.status == refCorrupt {
		perm = refInflate(c.stream, refOpts{strict: false, maxOut: M + c.preOut, symStart: c.symStart, litCap: litCap, capFrom: c.symStart, capTo: c.symStart + 8*n})
		verifrt.Assume(perm.status != refTooLong && perm.status != refSkip)
	}

	// the standard library on the same bytes (validates the reference; S=1)
	withStd := verifrt.Param("S") == 1
	var sout []byte
	sk := 0
	if withStd {
		sr := stdflate.NewReader(bytes.NewReader(c.stream))
		var serr error
		sout, serr, _ = vhDrain(sr, 64, M+c.preOut+300)
		sk = vhErrKind(serr)
	}

	fr := NewReader(bytes.NewReader(c.stream))
	fout, ferr, stalls := vhDrain(fr, bsz, M+c.preOut+300)
	fk := vhErrKind(ferr)
	verifrt.ObserveBytes("stream", c.stream)
	verifrt.ObserveBytes("fout", fout)
	verifrt.Observe("fk", uint64(fk))

	// reference vs stdlib (validates the reference itself)
	if !withStd {
	} else if strict.status == refComplete {
		verifrt.Assert(sk == 1, "REF:stdlib-accepts")
		verifrt.Assert(vhEqual(sout, strict.out), "REF:stdlib-bytes")
	} else {
		verifrt.Assert(sk != 1, "REF:stdlib-rejects")
	}

	if strict.status == refComplete {
		// a complete valid stream: C02 owns the verdict
		verifrt.Cover("complete")
		verifrt.Assert(fk == 1, "C02:eof")
		verifrt.Assert(vhEqual(fout, strict.out), "C02:bytes")
	}
	if verifrt.Param("ONLY") == 2 {
		// run for C02 only: the malformed-input assertions belong to the C03 runs
		return
	}
	verifrt.Assert(stalls == 0, "C03:progress")
	verifrt.Assert(fk != 0 && fk != 4, "C03:error-kind-domain")
	if strict.status != refComplete {
		// not a complete well-formed stream
		if perm.status != refComplete {
			verifrt.Assert(fk != 1, "C03:false-eof")
		}
		verifrt.Assert(vhPrefix(fout, perm.out), "C03:invented-data")
		if strict.status == refNeedMore {
			verifrt.Cover("truncated")
			if fk == 3 && strict.dead {
				// a block without an end-of-block code can never end: corrupt is right
			} else if fk == 3 {
				// CorruptInputError on an incomplete stream is right only if no
				// continuation can be valid: ask for two more (symbolic) bytes that
				// keep the reference inflater alive.
				ext := verifrt.Bytes(2)
				longer := append(append([]byte(nil), c.stream...), ext...)
				r2 := refInflate(longer, refOpts{strict: true, maxOut: M + c.preOut + 600, symStart: c.symStart})
				verifrt.Assert(r2.status == refCorrupt, "C03:truncated-kind")
			} else {
				verifrt.Assert(fk == 2, "C03:truncated-kind")
			}
		}
		if strict.status == refCorrupt && perm.status == refCorrupt {
			verifrt.Cover("corrupt")
			if 8*len(c.stream)-perm.endBit >= 128 {
				// the defect lies well inside the input (16 or more bytes follow it):
				// "the input ran out before the defect" is not an excuse
				verifrt.Assert(fk == 3, "C03:corrupt-reported-as-truncated")
			} else {
				verifrt.Assert(fk == 3 || fk == 2, "C03:corrupt-kind")
			}
		}
	}
	// sticky error
	var b2 [4]byte
	k2, e2 := fr.Read(b2[:])
	verifrt.Assert(k2 == 0 && e2 == ferr, "C03:sticky")
}
