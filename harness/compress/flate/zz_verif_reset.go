//go:build verif

package flate

import (
	"bytes"

	"github.com/intel/fastgo/internal/verifrt"
)

// vhArbitraryReader returns a decompressor in an arbitrary state satisfying the
// representation invariant InvRd (DESIGN.md 7.0): every scalar of the inflate
// state is symbolic within its range, the history buffer holds symbolic bytes
// around the read/write positions, tables hold whatever an earlier concrete
// dynamic block (template 2) left in them.
func vhArbitraryReader() *decompressor {
	// start from a reader that really decoded something (tables, bufio state)
	w := &vbw{}
	lit2, dist2 := vhTemplate(2)
	d := vbDynHeader(w, false, lit2, dist2, false)
	d.sym(w, 97)
	d.sym(w, 98)
	d.match(w, 3, 2)
	d.sym(w, 256)
	w.bits(0, 1)
	w.bits(1, 2)
	vbFixedSym(w, 'x')
	old := w.bytes()
	r := NewReader(bytes.NewReader(old)).(*decompressor)
	var tmp [3]byte
	r.Read(tmp[:])

	// now overwrite the scalar state with arbitrary values inside the invariant
	// positions: a boundary class chosen by the driver plus a small symbolic offset
	bases := [5]int{0, 300, historySize, 2 * historySize, 2*historySize + lookAhead - 4}
	wp := bases[verifrt.Pick("wp", 5)] + int(verifrt.U8()&3)
	pend := int(verifrt.U8() & 3)
	verifrt.Assume(pend <= wp)
	wp = verifrt.Concretize(wp)
	rp := verifrt.Concretize(wp - pend)
	r.writePos, r.readPos = wp, rp
	// symbolic old history around the positions (what a back-reference or a stale read would pick up)
	for i := wp - 6; i < wp+2; i++ {
		if i >= 0 && i < len(r.historyBuffer) {
			r.historyBuffer[i] = verifrt.U8()
		}
	}
	st := &r.state
	st.bits = verifrt.U64()
	bl := int32(verifrt.U8())
	verifrt.Assume(bl >= 0 && bl <= 64)
	st.bitsLen = bl
	ph := int32(verifrt.U8())
	verifrt.Assume(ph >= 0 && ph <= phaseFinish)
	st.phase = ph
	st.bfinal = uint32(verifrt.U8() & 1)
	lb := int(verifrt.U16())
	st.litBlockLength = lb
	wl := int32(verifrt.U8())
	verifrt.Assume(wl >= 0 && wl <= 3)
	st.writeOverflowLen = wl
	st.writeOverflowLits = int32(verifrt.U32() & 0xffffff)
	cl := int32(verifrt.U16())
	verifrt.Assume(cl >= 0 && cl <= 258)
	st.copyOverflowLength = cl
	cd := int32(verifrt.U16())
	verifrt.Assume(cd >= 0 && cd <= 32768)
	st.copyOverflowDistance = cd
	hb := int16(verifrt.U16())
	verifrt.Assume(hb >= 0 && hb <= 328)
	st.headerBuffered = hb
	st.roffset = int64(verifrt.U32())
	st.input = nil
	if verifrt.Pick("olderr", 3) == 0 && wp%2 == 1 {
		// abandoned in mid-stream: unconsumed compressed bytes of the old source are still referenced
		st.input = []byte{0x4b, 0x4c, 0x4a, 0x06, 0x00, 0x78, 0x78, 0x78, 0x78, 0x78, 0x78}
		verifrt.Cover("stale-input")
	}
	switch verifrt.Pick("olderr", 3) {
	case 1:
		r.err = CorruptInputError(7)
	case 2:
		r.err = verifrt.ErrValue("old")
	}
	r.eof = verifrt.Bool()
	r.peekSize = int(verifrt.U16())
	return r
}

// VerifRdReset (C13): Reset(src) from an arbitrary state, then the same window
// is decoded by the reset Reader and by a new one; results must be identical.
func VerifRdReset() {
	ctx := verifrt.Pick("ctx", 100)
	n := verifrt.Param("N")
	M := verifrt.Param("M")
	s := verifrt.Bytes(n)
	c := vhBuild(ctx, s)
	ref := refInflate(c.stream, refOpts{strict: false, maxOut: M + c.preOut, symStart: c.symStart})
	verifrt.Assume(ref.status != refTooLong && ref.status != refSkip)

	fresh := NewReader(bytes.NewReader(c.stream))
	aout, aerr, _ := vhDrain(fresh, 8, M+c.preOut+300)

	used := vhArbitraryReader()
	used.Reset(bytes.NewReader(c.stream), nil)
	bout, berr, stalls := vhDrain(used, 8, M+c.preOut+300)
	verifrt.ObserveBytes("stream", c.stream)
	verifrt.ObserveBytes("aout", aout)
	verifrt.ObserveBytes("bout", bout)
	verifrt.Cover("ran")
	verifrt.Assert(stalls == 0, "C13:progress")
	verifrt.Assert(vhEqual(aout, bout), "C13:bytes")
	verifrt.Assert(vhErrKind(aerr) == vhErrKind(berr), "C13:error-kind")
}
