//go:build verif

package flate

import (
	"bytes"
	"io"

	"github.com/intel/fastgo/internal/verifrt"
)

// VerifSmoke: a fresh Reader over N symbolic bytes; drain and observe.
func VerifSmoke() {
	n := verifrt.Param("N")
	s := verifrt.Bytes(n)
	r := NewReader(bytes.NewReader(s))
	var out []byte
	buf := make([]byte, 8)
	var err error
	for i := 0; i < 100; i++ {
		var k int
		k, err = r.Read(buf)
		out = append(out, buf[:k]...)
		if err != nil {
			break
		}
	}
	verifrt.ObserveBytes("in", s)
	verifrt.ObserveBytes("out", out)
	if err == io.EOF {
		verifrt.Cover("eof")
		verifrt.Observe("err", 1)
	} else if err == io.ErrUnexpectedEOF {
		verifrt.Cover("ueof")
		verifrt.Observe("err", 2)
	} else if _, ok := err.(CorruptInputError); ok {
		verifrt.Cover("corrupt")
		verifrt.Observe("err", 3)
	} else {
		verifrt.Observe("err", 4)
	}
}
