//go:build verif

package gzip

import (
	"bytes"
	"io"

	"github.com/intel/fastgo/compress/flate"
	"github.com/intel/fastgo/compress/zlib"
	"github.com/intel/fastgo/internal/verifrt"
)

func viData(n int, seed uint32) []byte {
	d := make([]byte, n)
	x := seed
	for i := range d {
		x = x*1103515245 + 12345
		if (x>>16)&7 < 5 && i >= 5 {
			d[i] = d[i-5]
		} else {
			d[i] = byte('a' + (x>>20)%19)
		}
	}
	return d
}

type viSink struct{ b []byte }

func (s *viSink) Write(p []byte) (int, error) { s.b = append(s.b, p...); return len(p), nil }

func viFlateWrite(level int, small bool, n int, seed uint32) func() {
	return func() {
		var s viSink
		var w *flate.Writer
		if small {
			w, _ = flate.NewWriterwWith4KWindow(&s, level)
		} else {
			w, _ = flate.NewWriter(&s, level)
		}
		d := viData(n, seed)
		w.Write(d[:n/2])
		w.Flush()
		w.Write(d[n/2:])
		w.Close()
	}
}

// viSkewed has geometric symbol frequencies (1,1,2,4,...,32768): the optimal
// Huffman tree is deeper than 15, so the length-limiting path of the code
// generator runs.
func viSkewed(rot int) []byte {
	d := make([]byte, 0, 65600)
	d = append(d, byte('A'+rot%17))
	a := 1
	for s := 1; s < 17; s++ {
		c := byte('A' + (s+rot)%17)
		for i := 0; i < a; i++ {
			d = append(d, c)
		}
		a *= 2
	}
	return d
}

func viHuffWrite(rot int) func() {
	return func() {
		var s viSink
		w, _ := flate.NewWriter(&s, flate.HuffmanOnly)
		w.Write(viSkewed(rot))
		w.Close()
	}
}

func viFlateRead(stream []byte) func() {
	return func() {
		r := flate.NewReader(bytes.NewReader(stream))
		buf := make([]byte, 16)
		for i := 0; i < 64; i++ {
			if _, err := r.Read(buf); err != nil {
				break
			}
		}
	}
}

func viGzipWrite(level int, n int) func() {
	return func() {
		var s viSink
		w, _ := NewWriterLevel(&s, level)
		w.Name = "x"
		w.Write(viData(n, 7))
		w.Close()
	}
}

func viGzipRead(data []byte) func() {
	return func() {
		z, err := NewReader(bytes.NewReader(data))
		if err != nil {
			return
		}
		io.ReadFull(z, make([]byte, 64))
	}
}

func viZlibWrite(level int, n int) func() {
	return func() {
		var s viSink
		w, _ := zlib.NewWriterLevel(&s, level)
		w.Write(viData(n, 9))
		w.Close()
	}
}

func viZlibRead(data []byte) func() {
	return func() {
		z, err := zlib.NewReader(bytes.NewReader(data))
		if err != nil {
			return
		}
		io.ReadFull(z, make([]byte, 64))
	}
}

// VerifInstances (C17, sufficient condition): two distinct instances run their
// workloads; no package-level state may be written and nothing written through
// one instance may be touched through the other. Natively the two workloads run
// concurrently under the race detector.
func VerifInstances() {
	pair := verifrt.Pick("pair", 10)
	n := verifrt.Param("N")
	win := verifrt.Bytes(n) // symbolic stream bytes for reader workloads
	// a dynamic-block stream (template 2) with the symbolic window as payload
	w := &vbw{}
	lit := make([]uint8, 259)
	lit[97], lit[98], lit[256], lit[257], lit[258] = 2, 2, 2, 3, 3
	vbDynHeader(w, true, lit, []uint8{1, 1}, false)
	dyn := append(w.bytes(), win...)
	fixed := append([]byte{0x4b, 0x4c, 0x4a}, win...) // fixed block literals, then window
	gzA := append(append([]byte(nil), vgHdr...), fixed...)
	zlA := append([]byte{0x78, 0x9c}, dyn...)
	var a, b func()
	switch pair {
	case 0:
		a, b = viFlateWrite(1, false, 400, 1), viFlateWrite(1, false, 300, 2)
	case 1:
		a, b = viFlateWrite(-2, false, 300, 3), viFlateRead(dyn)
	case 2:
		a, b = viFlateRead(dyn), viFlateRead(fixed)
	case 3:
		a, b = viGzipWrite(2, 300), viGzipRead(gzA)
	case 4:
		a, b = viZlibWrite(2, 300), viZlibRead(zlA)
	case 5:
		a, b = viFlateWrite(2, false, 300, 4), viFlateWrite(-1, true, 300, 5)
	case 6:
		a, b = viFlateRead(dyn), viFlateRead(dyn)
	case 7:
		a, b = viGzipWrite(-2, 200), viZlibWrite(1, 200)
	case 8:
		a, b = viHuffWrite(0), viHuffWrite(5)
	case 9:
		// two Readers building tables for distance codes longer than 10 bits (long-code scratch)
		w5 := &vbw{}
		lit5 := make([]uint8, 258)
		lit5[97], lit5[256], lit5[257] = 1, 2, 2
		dist5 := make([]uint8, 16)
		for i := 0; i < 14; i++ {
			dist5[i] = uint8(1 + i)
		}
		dist5[14], dist5[15] = 15, 15
		vbDynHeader(w5, true, lit5, dist5, false)
		long := append(w5.bytes(), win...)
		a, b = viFlateRead(long), viFlateRead(long)
	}
	verifrt.Parallel(a, b)
	verifrt.Cover("ran")
}
