//go:build verif

package gzip

import (
	"bufio"
	"bytes"
	stdflate "compress/flate"
	stdgzip "compress/gzip"
	stdzlib "compress/zlib"
	"hash/crc32"
	"io"
	"time"

	"github.com/intel/fastgo/compress/flate"
	"github.com/intel/fastgo/compress/zlib"
	"github.com/intel/fastgo/internal/verifrt"
)

func vgErrKind(err error) int {
	switch err {
	case nil:
		return 0
	case io.EOF:
		return 1
	case io.ErrUnexpectedEOF:
		return 2
	case ErrHeader, stdgzip.ErrHeader:
		return 4
	case ErrChecksum, stdgzip.ErrChecksum:
		return 5
	}
	return 3 // flate.CorruptInputError and anything else
}

var vgHdr = []byte{0x1f, 0x8b, 8, 0, 0, 0, 0, 0, 0, 255}

// vgDrainN reads with per-call sizes bsz and reports bytes, final error and the
// n returned together with that error.
func vgDrain(r io.Reader, bsz int, max int) (out []byte, err error, lastN int) {
	buf := make([]byte, bsz)
	for i := 0; i < 200; i++ {
		var k int
		k, err = r.Read(buf)
		if k < 0 || k > len(buf) {
			verifrt.Assert(false, "C07:read-count-out-of-range")
		}
		out = append(out, buf[:k]...)
		lastN = k
		if err != nil || len(out) > max {
			return
		}
	}
	return
}

// VerifGzBody (C07, C05 one level up, C15/C11 container variants are separate):
// one member with a symbolic deflate payload and a symbolic trailer, cut at a
// symbolic point, followed by symbolic trailing bytes.
func VerifGzBody() {
	n := verifrt.Param("N")
	M := verifrt.Param("M")
	s := verifrt.Bytes(n)
	ref := refInflate(s, refOpts{strict: true, maxOut: M, symStart: 0})
	verifrt.Assume(ref.status == refComplete)
	trailer := verifrt.Bytes(8)
	member := append(append(append([]byte(nil), vgHdr...), s[:ref.consumed]...), trailer...)
	cut := verifrt.Int()
	verifrt.Assume(cut >= 0 && cut <= len(member))
	cut = verifrt.Concretize(cut)
	mode := verifrt.Pick("multi", 2)
	data := member[:cut]
	src := bufio.NewReaderSize(bytes.NewReader(data), 16)
	z, err := NewReader(src)
	verifrt.ObserveBytes("data", data)
	if err != nil {
		verifrt.Cover("header-error")
		if cut == 0 {
			verifrt.Assert(err == io.EOF, "C07:empty-input-is-eof")
		} else {
			verifrt.Assert(cut < 10 && err == io.ErrUnexpectedEOF, "C07:header-truncation-kind")
		}
		return
	}
	if mode == 1 {
		z.Multistream(false)
	}
	out, rerr, lastN := vgDrain(z, verifrt.Param("B"), M+8)
	verifrt.ObserveBytes("out", out)
	verifrt.Observe("kind", uint64(vgErrKind(rerr)))
	verifrt.Assert(vhPrefix(out, ref.out), "C07:prefix-of-payload")
	if rerr == io.EOF {
		verifrt.Cover("eof")
		crc := crc32.ChecksumIEEE(out)
		want := uint32(trailer[0]) | uint32(trailer[1])<<8 | uint32(trailer[2])<<16 | uint32(trailer[3])<<24
		size := uint32(trailer[4]) | uint32(trailer[5])<<8 | uint32(trailer[6])<<16 | uint32(trailer[7])<<24
		verifrt.Assert(cut == len(member), "C07:eof-on-truncated-member")
		verifrt.Assert(vhEqual(out, ref.out), "C07:eof-with-partial-payload")
		verifrt.Assert(crc == want, "C07:eof-with-bad-crc")
		verifrt.Assert(size == uint32(len(out)), "C07:eof-with-bad-size")
	}
	if cut < len(member) {
		verifrt.Cover("truncated")
		verifrt.Assert(rerr == io.ErrUnexpectedEOF, "C07:truncation-kind")
		// the n returned with the error is the payload of that call
		verifrt.Assert(len(out) <= len(ref.out), "C07:truncation-count")
		_ = lastN
	}
	k2, e2 := z.Read(make([]byte, 4))
	verifrt.Assert(k2 == 0 && e2 == rerr, "C07:sticky")
}

// VerifGzDiff (C06 read direction, C08): fastgo's and the standard library's
// gzip Readers on the same bytes: concatenated members with symbolic trailers,
// symbolic trailing garbage, default and Multistream(false)+Reset modes.
func VerifGzDiff() {
	shape := verifrt.Pick("shape", 4)
	mode := verifrt.Pick("multi", 2)
	w := &vbw{}
	vbStored(w, true, []byte("ab"))
	m1 := w.bytes()
	w2 := &vbw{}
	vbStored(w2, true, nil)
	m2 := w2.bytes()
	var data []byte
	mk := func(body []byte) {
		data = append(data, vgHdr...)
		data = append(data, body...)
		data = append(data, verifrt.Bytes(8)...)
	}
	switch shape {
	case 0:
		mk(m1)
	case 1:
		mk(m1)
		mk(m2)
	case 2:
		mk(m2)
		mk(m1)
		mk(m1)
	case 3:
		mk(m1)
	}
	ng := verifrt.Param("G")
	garbage := verifrt.Bytes(ng)
	if shape == 3 {
		// garbage that may look like the start of another header
		garbage[0] = 0x1f
	}
	data = append(data, garbage...)
	verifrt.ObserveBytes("data", data)

	fund, sund := bytes.NewReader(data), bytes.NewReader(data)
	fsrc := bufio.NewReaderSize(fund, 16)
	ssrc := bufio.NewReaderSize(sund, 16)
	fz, ferr := NewReader(fsrc)
	sz, serr := stdgzip.NewReader(ssrc)
	verifrt.Assert(vgErrKind(ferr) == vgErrKind(serr), "C08:open-error")
	if ferr != nil || serr != nil {
		return
	}
	if mode == 0 {
		fout, fe, _ := vgDrain(fz, 3, 64)
		sout, se, _ := vgDrain(sz, 3, 64)
		verifrt.ObserveBytes("fout", fout)
		verifrt.Observe("fk", uint64(vgErrKind(fe)))
		verifrt.Cover("default-mode")
		verifrt.Assert(vhEqual(fout, sout), "C08:bytes")
		verifrt.Assert(vgErrKind(fe) == vgErrKind(se), "C08:error-kind")
		var again [4]byte
		fa, fae := fz.Read(again[:])
		sa, sae := sz.Read(again[:])
		verifrt.Assert(fa == sa && vgErrKind(fae) == vgErrKind(sae), "C08:read-after-end")
		return
	}
	// member by member
	for i := 0; i < 4; i++ {
		fz.Multistream(false)
		sz.Multistream(false)
		fout, fe, _ := vgDrain(fz, 3, 64)
		sout, se, _ := vgDrain(sz, 3, 64)
		verifrt.ObserveBytes("fout", fout)
		verifrt.Assert(vhEqual(fout, sout), "C08:member-bytes")
		verifrt.Assert(vgErrKind(fe) == vgErrKind(se), "C08:member-error-kind")
		if fe != io.EOF || se != io.EOF {
			return
		}
		verifrt.Cover("member-done")
		// reading again after the end of a member changes nothing
		var again [4]byte
		fa, fae := fz.Read(again[:])
		sa, sae := sz.Read(again[:])
		verifrt.Assert(fa == sa && vgErrKind(fae) == vgErrKind(sae), "C08:read-after-member-end")
		// C05 one level up: both sources are positioned identically
		verifrt.Assert(fsrc.Buffered()+fund.Len() == ssrc.Buffered()+sund.Len(), "C05:gzip-source-position")
		e1 := fz.Reset(fsrc)
		e2 := sz.Reset(ssrc)
		verifrt.Assert(vgErrKind(e1) == vgErrKind(e2), "C08:reset-error-kind")
		if e1 != nil || e2 != nil {
			// trailing non-gzip data must be left unread
			if e1 == ErrHeader {
				verifrt.Cover("garbage-left")
			}
			return
		}
	}
}

// VerifGzHdrRead (C06): header parsing against the standard library on the same symbolic bytes.
func VerifGzHdrRead() {
	h := append([]byte(nil), vgHdr...)
	h[3] = verifrt.U8() & 0x1f
	copy(h[4:8], verifrt.Bytes(4))
	h[9] = verifrt.U8()
	x := verifrt.Param("X")
	extra := verifrt.Bytes(x)
	if h[3]&4 != 0 {
		// keep FEXTRA length small
		verifrt.Assume(x >= 2 && extra[0] <= 2 && extra[1] == 0)
	}
	w := &vbw{}
	vbStored(w, true, nil)
	data := append(append(h, extra...), w.bytes()...)
	data = append(data, 0, 0, 0, 0, 0, 0, 0, 0)
	// the input may end anywhere (truncation inside every optional header field)
	cut := verifrt.Int()
	verifrt.Assume(cut >= 0 && cut <= len(data))
	data = data[:verifrt.Concretize(cut)]
	verifrt.ObserveBytes("data", data)
	fz, ferr := NewReader(bytes.NewReader(data))
	sz, serr := stdgzip.NewReader(bytes.NewReader(data))
	verifrt.Assert(vgErrKind(ferr) == vgErrKind(serr), "C06:header-error")
	if ferr != nil || serr != nil {
		verifrt.Cover("rejected")
		return
	}
	verifrt.Cover("accepted")
	verifrt.Assert(fz.Name == sz.Name, "C06:name")
	verifrt.Assert(fz.Comment == sz.Comment, "C06:comment")
	verifrt.Assert(string(fz.Extra) == string(sz.Extra) && (fz.Extra == nil) == (sz.Extra == nil), "C06:extra")
	verifrt.Assert(fz.OS == sz.OS, "C06:os")
	verifrt.Assert(fz.ModTime.Unix() == sz.ModTime.Unix() && fz.ModTime.IsZero() == sz.ModTime.IsZero(), "C06:mtime")
}

type vgSink struct{ b []byte }

func (s *vgSink) Write(p []byte) (int, error) { s.b = append(s.b, p...); return len(p), nil }

// VerifGzWrite (C06): what the Writer emits, against the standard library's
// Writer on the same header and the same operations. Level 0 (stored) makes the
// whole output comparable byte for byte with a symbolic payload; other levels
// compare header and trailer around a concrete payload.
func VerifGzWrite() {
	lvl := verifrt.Pick("level", 4) // 0 -> NoCompression, 1 -> BestSpeed, 2 -> level 2... see table
	levels := [4]int{0, 1, 9, -2}
	level := levels[lvl]
	pat := verifrt.Pick("ops", 6)
	var fs, ss vgSink
	fw, e1 := NewWriterLevel(&fs, level)
	sw, e2 := stdgzip.NewWriterLevel(&ss, level)
	verifrt.Assert((e1 == nil) == (e2 == nil), "C06:level-accept")
	// header fields
	nameLen := verifrt.Param("NAME")
	nb := verifrt.Bytes(nameLen)
	for _, c := range nb {
		verifrt.Assume(c < 0xE0) // 3/4-byte UTF-8 sequences are outside the claim
	}
	name := string(nb)
	cb := verifrt.Bytes(verifrt.Param("COMMENT"))
	for _, c := range cb {
		verifrt.Assume(c < 0xE0)
	}
	comment := string(cb)
	var extra []byte
	if verifrt.Pick("extra", 2) == 1 {
		extra = verifrt.Bytes(verifrt.Param("EXTRA"))
	}
	sec := int64(int32(verifrt.U32()))
	osb := verifrt.U8()
	fw.Name, sw.Name = name, name
	fw.Comment, sw.Comment = comment, comment
	fw.Extra, sw.Extra = extra, extra
	if sec != 0 {
		fw.ModTime, sw.ModTime = time.Unix(sec, 0), time.Unix(sec, 0)
	}
	fw.OS, sw.OS = osb, osb
	var payload []byte
	if level == 0 {
		payload = verifrt.Bytes(verifrt.Param("P"))
	} else {
		payload = []byte("abcabc")[:verifrt.Param("P")]
	}
	var fe, se [4]error
	do := func(i int, op int, lo, hi int) {
		switch op {
		case 0:
			_, fe[i] = fw.Write(payload[lo:hi])
			_, se[i] = sw.Write(payload[lo:hi])
		case 1:
			fe[i] = fw.Flush()
			se[i] = sw.Flush()
		case 2:
			fe[i] = fw.Close()
			se[i] = sw.Close()
		}
	}
	h := len(payload) / 2
	switch pat {
	case 0: // Write all, Close
		do(0, 0, 0, len(payload))
		do(1, 2, 0, 0)
	case 1: // Write, Flush, Write, Close
		do(0, 0, 0, h)
		do(1, 1, 0, 0)
		do(2, 0, h, len(payload))
		do(3, 2, 0, 0)
	case 2: // Close only
		do(0, 2, 0, 0)
	case 3: // Flush, Write, Close
		do(0, 1, 0, 0)
		do(1, 0, 0, len(payload))
		do(2, 2, 0, 0)
	case 4, 5: // abandon a stream (written, optionally flushed), Reset, then Write, Close
		do(0, 0, 0, h)
		if pat == 5 {
			do(1, 1, 0, 0)
		}
		fs.b, ss.b = nil, nil
		fw.Reset(&fs)
		sw.Reset(&ss)
		fw.Name, sw.Name = name, name
		fw.Comment, sw.Comment = comment, comment
		fw.Extra, sw.Extra = extra, extra
		fw.OS, sw.OS = osb, osb
		do(2, 0, h, len(payload))
		do(3, 2, 0, 0)
		// what the reset Writer emits is a complete member of the second part only
		if level == 0 {
			verifrt.Assert(vhEqual(fs.b, ss.b), "C06:reset-output-identical")
		}
		verifrt.Assert(len(fs.b) >= 8 && len(ss.b) >= 8 && vhEqual(fs.b[len(fs.b)-8:], ss.b[len(ss.b)-8:]), "C06:reset-trailer-bytes")
		verifrt.Cover("written")
		return
	}
	for i := 0; i < 4; i++ {
		verifrt.Assert((fe[i] == nil) == (se[i] == nil), "C06:op-error")
	}
	verifrt.ObserveBytes("fastgo", fs.b)
	verifrt.ObserveBytes("stdlib", ss.b)
	if fe[0] != nil || se[0] != nil {
		verifrt.Cover("header-rejected")
		return
	}
	verifrt.Cover("written")
	// header length: 10 + extra + name + comment
	hl := 10
	if extra != nil {
		hl += 2 + len(extra)
	}
	verifrt.Assert(len(fs.b) >= hl+8 && len(ss.b) >= hl+8, "C06:output-length")
	if level == 0 {
		verifrt.Assert(vhEqual(fs.b, ss.b), "C06:stored-output-identical")
		return
	}
	// header bytes up to the deflate data and the trailer
	verifrt.Assert(vhEqual(fs.b[:hl], ss.b[:hl]), "C06:header-bytes")
	verifrt.Assert(vhEqual(fs.b[len(fs.b)-8:], ss.b[len(ss.b)-8:]), "C06:trailer-bytes")
}

// vgSrc delivers data[:k] and then a distinct error (alone or with the last bytes).
type vgSrc struct {
	data     []byte
	pos      int
	err      error
	withLast bool
	chunk    int
}

func (s *vgSrc) Read(p []byte) (int, error) {
	if s.pos >= len(s.data) {
		return 0, s.err
	}
	n := len(s.data) - s.pos
	if s.chunk > 0 && n > s.chunk {
		n = s.chunk
	}
	if n > len(p) {
		n = len(p)
	}
	copy(p, s.data[s.pos:s.pos+n])
	s.pos += n
	if s.pos >= len(s.data) && s.withLast {
		return n, s.err
	}
	return n, nil
}

// VerifGzFail (C15, gzip): the source fails after k bytes of a valid member
// (k symbolic over header, payload and trailer).
func VerifGzFail() {
	w := &vbw{}
	vbStored(w, false, []byte("ab"))
	w.bits(1, 1)
	w.bits(1, 2)
	vbFixedSym(w, 'c')
	vbFixedSym(w, 256)
	body := w.bytes()
	member := append(append([]byte(nil), vgHdr...), body...)
	crc := crc32.ChecksumIEEE([]byte("abc"))
	member = append(member, byte(crc), byte(crc>>8), byte(crc>>16), byte(crc>>24), 3, 0, 0, 0)
	k := verifrt.Int()
	verifrt.Assume(k >= 0 && k < len(member))
	k = verifrt.Concretize(k)
	fault := verifrt.ErrValue("src")
	src := &vgSrc{data: member[:k], err: fault, withLast: verifrt.Pick("with", 2) == 1 && k > 0, chunk: verifrt.Param("CHUNK")}
	var r io.Reader = src
	if verifrt.Pick("buf", 2) == 1 {
		r = bufio.NewReaderSize(src, 16)
	}
	z, err := NewReader(r)
	verifrt.Observe("k", uint64(k))
	if err != nil {
		verifrt.Cover("header-fault")
		verifrt.Assert(err == fault, "C15:gzip-header-error-identity")
		return
	}
	out, rerr, _ := vgDrain(z, 2, 16)
	verifrt.ObserveBytes("out", out)
	verifrt.Cover("body-fault")
	verifrt.Assert(rerr == fault, "C15:gzip-error-identity")
	verifrt.Assert(vhPrefix(out, []byte("abc")), "C15:gzip-prefix")
	k2, e2 := z.Read(make([]byte, 4))
	verifrt.Assert(k2 == 0 && e2 == fault, "C15:gzip-sticky")
}

// vgFailSink fails at its k-th call, then keeps failing or recovers.
type vgFailSink struct {
	b       []byte
	calls   int
	failAt  int
	err     error
	failed  bool
	recover bool
}

func (s *vgFailSink) Write(p []byte) (int, error) {
	s.calls++
	if s.failAt != 0 && s.calls >= s.failAt && !s.failed {
		s.failed = true
		return 0, s.err
	}
	if s.failed && !s.recover {
		return 0, s.err
	}
	s.b = append(s.b, p...)
	return len(p), nil
}

// VerifGzWrFail (C14, gzip): destination fails at its k-th call (header, body or trailer writes).
func VerifGzWrFail() {
	levels := [2]int{0, 1}
	level := levels[verifrt.Pick("level", 2)]
	K := verifrt.Param("K")
	fault := verifrt.ErrValue("dst")
	k := int(verifrt.U8())
	verifrt.Assume(k >= 1 && k <= verifrt.Param("KMAX"))
	sink := &vgFailSink{failAt: verifrt.Concretize(k), err: fault, recover: verifrt.Pick("recover", 2) == 1}
	w, _ := NewWriterLevel(sink, level)
	w.Name = "n"
	w.Comment = "c"
	w.Extra = []byte{1}
	for i := 0; i < K; i++ {
		op := int(verifrt.U8())
		verifrt.Assume(op < 3)
		op = verifrt.Concretize(op)
		was := sink.failed
		before := sink.calls
		var err error
		switch op {
		case 0:
			_, err = w.Write([]byte("hello"))
		case 1:
			err = w.Flush()
		case 2:
			err = w.Close()
		}
		if was {
			verifrt.Cover("op-after-failure")
			verifrt.Assert(err != nil, "C14:gzip-not-sticky")
			verifrt.Assert(sink.calls == before, "C14:gzip-destination-touched-after-failure")
		} else if sink.failed {
			verifrt.Cover("failure-reported")
			verifrt.Assert(err == fault, "C14:gzip-failure-not-reported")
		}
	}
}

// VerifCtorLevels (C16): the constructors that mirror the standard library
// accept and reject exactly the levels it does (level symbolic, case-split).
func VerifCtorLevels() {
	lv := int(int8(verifrt.U8()))
	verifrt.Assume(lv >= -6 && lv <= 13)
	lv = verifrt.Concretize(lv)
	var s1, s2 vgSink
	_, e1 := NewWriterLevel(&s1, lv)
	_, e2 := stdgzip.NewWriterLevel(&s2, lv)
	verifrt.Assert((e1 == nil) == (e2 == nil), "C16:gzip-level-accept")
	_, e3 := flate.NewWriter(&s1, lv)
	_, e4 := stdflate.NewWriter(&s2, lv)
	verifrt.Assert((e3 == nil) == (e4 == nil), "C16:flate-level-accept")
	_, e5 := flate.NewWriterDict(&s1, lv, []byte("abc"))
	_, e6 := stdflate.NewWriterDict(&s2, lv, []byte("abc"))
	verifrt.Assert((e5 == nil) == (e6 == nil), "C16:flate-dict-level-accept")
	_, e7 := zlib.NewWriterLevel(&s1, lv)
	_, e8 := stdzlib.NewWriterLevel(&s2, lv)
	verifrt.Assert((e7 == nil) == (e8 == nil), "C16:zlib-level-accept")
	_, e9 := zlib.NewWriterLevelDict(&s1, lv, []byte("abc"))
	_, e10 := stdzlib.NewWriterLevelDict(&s2, lv, []byte("abc"))
	verifrt.Assert((e9 == nil) == (e10 == nil), "C16:zlib-dict-level-accept")
	verifrt.Cover("ran")
}

// VerifGzSeq (C16, gzip/zlib): an arbitrary sequence of K operations on
// fastgo's and the standard library's gzip and zlib Writers (level 0, so the
// outputs are comparable byte for byte): same error-ness at every call, same bytes.
func VerifGzSeq() {
	K := verifrt.Param("K")
	var fs, ss, fzs, szs vgSink
	fw, _ := NewWriterLevel(&fs, 0)
	sw, _ := stdgzip.NewWriterLevel(&ss, 0)
	fz, _ := zlib.NewWriterLevel(&fzs, 0)
	sz, _ := stdzlib.NewWriterLevel(&szs, 0)
	payload := verifrt.Bytes(2)
	for i := 0; i < K; i++ {
		op := int(verifrt.U8())
		verifrt.Assume(op < 5)
		op = verifrt.Concretize(op)
		var e1, e2, e3, e4 error
		switch op {
		case 0:
			_, e1 = fw.Write(payload)
			_, e2 = sw.Write(payload)
			_, e3 = fz.Write(payload)
			_, e4 = sz.Write(payload)
		case 1:
			_, e1 = fw.Write(nil)
			_, e2 = sw.Write(nil)
			_, e3 = fz.Write(nil)
			_, e4 = sz.Write(nil)
		case 2:
			e1, e2, e3, e4 = fw.Flush(), sw.Flush(), fz.Flush(), sz.Flush()
		case 3:
			e1, e2, e3, e4 = fw.Close(), sw.Close(), fz.Close(), sz.Close()
			verifrt.Cover("close")
		case 4:
			fw.Reset(&fs)
			sw.Reset(&ss)
			fz.Reset(&fzs)
			sz.Reset(&szs)
		}
		verifrt.Assert((e1 == nil) == (e2 == nil), "C16:gzip-op-error-differs")
		verifrt.Assert((e3 == nil) == (e4 == nil), "C16:zlib-op-error-differs")
	}
	verifrt.ObserveBytes("gz", fs.b)
	verifrt.ObserveBytes("zl", fzs.b)
	verifrt.Assert(vhEqual(fs.b, ss.b), "C16:gzip-output-differs")
	verifrt.Assert(vhEqual(fzs.b, szs.b), "C16:zlib-output-differs")
}
