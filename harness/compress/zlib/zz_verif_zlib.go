//go:build verif

package zlib

import (
	"bufio"
	"bytes"
	stdzlib "compress/zlib"
	"hash/adler32"
	"io"

	"github.com/intel/fastgo/internal/verifrt"
)

func vzErrKind(err error) int {
	switch err {
	case nil:
		return 0
	case io.EOF:
		return 1
	case io.ErrUnexpectedEOF:
		return 2
	case ErrHeader, stdzlib.ErrHeader:
		return 4
	case ErrChecksum, stdzlib.ErrChecksum:
		return 5
	case ErrDictionary, stdzlib.ErrDictionary:
		return 6
	}
	return 3
}

func vzDrain(r io.Reader, bsz int, max int) (out []byte, err error) {
	buf := make([]byte, bsz)
	for i := 0; i < 200; i++ {
		var k int
		k, err = r.Read(buf)
		out = append(out, buf[:k]...)
		if err != nil || len(out) > max {
			return
		}
	}
	return
}

var vzDict = []byte("abc")

// VerifZlRead (C06 read direction, C07): fastgo's zlib reader against the
// standard library's on the same symbolic container.
func VerifZlRead() {
	n := verifrt.Param("N")
	M := verifrt.Param("M")
	useDict := verifrt.Pick("dict", 2) == 1
	hdr := []byte{0x78, 0x9c}
	if useDict {
		hdr = []byte{0x78, 0xbb}
	}
	if verifrt.Pick("hdrsym", 2) == 1 {
		hdr = verifrt.Bytes(2)
	}
	s := verifrt.Bytes(n)
	var dict []byte
	if useDict {
		dict = vzDict
	}
	ref := refInflate(s, refOpts{strict: true, maxOut: M, symStart: 0, dict: dict})
	verifrt.Assume(ref.status == refComplete)
	body := s[:ref.consumed]
	data := append([]byte(nil), hdr...)
	if useDict {
		// FDICT streams carry the dictionary id
		verifrt.Assume(hdr[1]&0x20 != 0)
		data = append(data, verifrt.Bytes(4)...)
	} else {
		verifrt.Assume(hdr[1]&0x20 == 0)
	}
	data = append(data, body...)
	trailer := verifrt.Bytes(4)
	data = append(data, trailer...)
	cut := verifrt.Int()
	verifrt.Assume(cut >= 0 && cut <= len(data))
	cut = verifrt.Concretize(cut)
	data = data[:cut]
	verifrt.ObserveBytes("data", data)
	fz, ferr := NewReaderDict(bufio.NewReaderSize(bytes.NewReader(data), 16), dict)
	sz, serr := stdzlib.NewReaderDict(bufio.NewReaderSize(bytes.NewReader(data), 16), dict)
	verifrt.Assert(vzErrKind(ferr) == vzErrKind(serr), "C06:open-error")
	if ferr != nil || serr != nil {
		verifrt.Cover("rejected")
		return
	}
	fout, fe := vzDrain(fz, verifrt.Param("B"), M+8)
	sout, se := vzDrain(sz, verifrt.Param("B"), M+8)
	verifrt.ObserveBytes("fout", fout)
	verifrt.Observe("fk", uint64(vzErrKind(fe)))
	verifrt.Assert(vhEqual(fout, sout), "C06:bytes")
	verifrt.Assert(vzErrKind(fe) == vzErrKind(se), "C06:error-kind")
	if fe == io.EOF {
		verifrt.Cover("eof")
		sum := adler32.Checksum(fout)
		want := uint32(trailer[0])<<24 | uint32(trailer[1])<<16 | uint32(trailer[2])<<8 | uint32(trailer[3])
		verifrt.Assert(sum == want, "C07:eof-with-bad-adler")
		verifrt.Assert(ref.status == refComplete && vhEqual(fout, ref.out), "C07:eof-with-wrong-payload")
	} else {
		verifrt.Assert(vhPrefix(fout, ref.out), "C07:prefix-of-payload")
	}
	if cut < len(data) && fe != nil {
		verifrt.Cover("truncated")
	}
}

// VerifZlReset (C13): Reset(r, dict) on a used reader against NewReaderDict(r, dict).
func VerifZlReset() {
	n := verifrt.Param("N")
	M := verifrt.Param("M")
	dsel := verifrt.Pick("dict", 3)
	useDict := dsel >= 1
	var dict []byte
	if dsel == 1 {
		dict = vzDict
	} else if dsel == 2 {
		// longer than the 32 KiB window
		dict = make([]byte, 40000)
		for i := range dict {
			dict[i] = byte('A' + i%61 + i/4096)
		}
	}
	s := verifrt.Bytes(n)
	ref := refInflate(s, refOpts{strict: true, maxOut: M, symStart: 0, dict: dict, distCap: 6})
	verifrt.Assume(ref.status == refComplete)
	if useDict && ref.maxDist > len(ref.out)-0 {
		verifrt.Cover("uses-dictionary")
	}
	// container
	hdr := []byte{0x78, 0x9c}
	if useDict {
		hdr = []byte{0x78, 0xbb}
	}
	data := append([]byte(nil), hdr...)
	if useDict {
		a := adler32.Checksum(dict)
		data = append(data, byte(a>>24), byte(a>>16), byte(a>>8), byte(a))
	}
	data = append(data, s[:ref.consumed]...)
	data = append(data, verifrt.Bytes(4)...)
	// first use: a complete small stream without dictionary, read to EOF or partially
	first := []byte{0x78, 0x9c, 0x4b, 0x4c, 0x4a, 0x06, 0x00, 0x02, 0x4d, 0x01, 0x27} // "abc"
	used, err := NewReader(bytes.NewReader(first))
	verifrt.Assume(err == nil)
	if verifrt.Pick("hist", 2) == 1 {
		vzDrain(used, 2, 64)
	} else {
		var b1 [1]byte
		used.Read(b1[:])
	}
	e1 := used.(Resetter).Reset(bytes.NewReader(data), dict)
	fresh, e2 := NewReaderDict(bytes.NewReader(data), dict)
	verifrt.Assert(vzErrKind(e1) == vzErrKind(e2), "C13:zlib-reset-error")
	if e1 != nil || e2 != nil {
		return
	}
	aout, ae := vzDrain(fresh, 4, M+8)
	bout, be := vzDrain(used, 4, M+8)
	verifrt.ObserveBytes("data", data)
	verifrt.ObserveBytes("fresh", aout)
	verifrt.ObserveBytes("reset", bout)
	verifrt.Cover("ran")
	verifrt.Assert(vhEqual(aout, bout), "C13:zlib-reset-bytes")
	verifrt.Assert(vzErrKind(ae) == vzErrKind(be), "C13:zlib-reset-error-kind")
}

type vzSink struct{ b []byte }

func (s *vzSink) Write(p []byte) (int, error) { s.b = append(s.b, p...); return len(p), nil }

// VerifZlWrite (C06): Writer output against the standard library's Writer.
func VerifZlWrite() {
	levels := [6]int{0, 1, 2, 6, -1, -2}
	level := levels[verifrt.Pick("level", 6)]
	useDict := verifrt.Pick("dict", 2) == 1
	pat := verifrt.Pick("ops", 6)
	var dict []byte
	if useDict {
		dict = vzDict
	}
	var fs, ss vzSink
	fw, e1 := NewWriterLevelDict(&fs, level, dict)
	sw, e2 := stdzlib.NewWriterLevelDict(&ss, level, dict)
	verifrt.Assert((e1 == nil) == (e2 == nil), "C06:level-accept")
	var payload []byte
	if level == 0 {
		payload = verifrt.Bytes(verifrt.Param("P"))
	} else {
		payload = []byte("abcabc")[:verifrt.Param("P")]
	}
	var fe, se [4]error
	do := func(i int, op int, lo, hi int) {
		switch op {
		case 0:
			_, fe[i] = fw.Write(payload[lo:hi])
			_, se[i] = sw.Write(payload[lo:hi])
		case 1:
			fe[i] = fw.Flush()
			se[i] = sw.Flush()
		case 2:
			fe[i] = fw.Close()
			se[i] = sw.Close()
		}
	}
	h := len(payload) / 2
	switch pat {
	case 0:
		do(0, 0, 0, len(payload))
		do(1, 2, 0, 0)
	case 1:
		do(0, 0, 0, h)
		do(1, 1, 0, 0)
		do(2, 0, h, len(payload))
		do(3, 2, 0, 0)
	case 2:
		do(0, 2, 0, 0)
	case 3:
		do(0, 1, 0, 0)
		do(1, 0, 0, len(payload))
		do(2, 2, 0, 0)
	case 4, 5: // abandon a stream (written, optionally flushed), Reset, then Write, Close
		do(0, 0, 0, h)
		if pat == 5 {
			do(1, 1, 0, 0)
		}
		fs.b, ss.b = nil, nil
		fw.Reset(&fs)
		sw.Reset(&ss)
		do(2, 0, h, len(payload))
		do(3, 2, 0, 0)
		if level == 0 || useDict {
			verifrt.Assert(vhEqual(fs.b, ss.b), "C06:reset-output-identical")
		}
		verifrt.Assert(len(fs.b) >= 4 && len(ss.b) >= 4 && vhEqual(fs.b[len(fs.b)-4:], ss.b[len(ss.b)-4:]), "C06:reset-trailer-bytes")
		verifrt.Cover("written")
		return
	}
	for i := 0; i < 4; i++ {
		verifrt.Assert((fe[i] == nil) == (se[i] == nil), "C06:op-error")
	}
	verifrt.ObserveBytes("fastgo", fs.b)
	verifrt.ObserveBytes("stdlib", ss.b)
	verifrt.Cover("written")
	hl := 2
	if useDict {
		hl = 6
	}
	verifrt.Assert(len(fs.b) >= hl+4 && len(ss.b) >= hl+4, "C06:output-length")
	if level == 0 || useDict {
		// stored blocks / dictionary writers delegate to the standard library: identical output
		verifrt.Assert(vhEqual(fs.b, ss.b), "C06:delegated-output-identical")
		return
	}
	verifrt.Assert(vhEqual(fs.b[:hl], ss.b[:hl]), "C06:header-bytes")
	verifrt.Assert(vhEqual(fs.b[len(fs.b)-4:], ss.b[len(ss.b)-4:]), "C06:trailer-bytes")
}

type vzSrc struct {
	data     []byte
	pos      int
	err      error
	withLast bool
}

func (s *vzSrc) Read(p []byte) (int, error) {
	if s.pos >= len(s.data) {
		return 0, s.err
	}
	n := copy(p, s.data[s.pos:])
	s.pos += n
	if s.pos >= len(s.data) && s.withLast {
		return n, s.err
	}
	return n, nil
}

// VerifZlFail (C15, zlib): the source fails after k bytes of a valid stream.
func VerifZlFail() {
	full := []byte{0x78, 0x9c, 0x4b, 0x4c, 0x4a, 0x06, 0x00, 0x02, 0x4d, 0x01, 0x27} // "abc"
	k := verifrt.Int()
	verifrt.Assume(k >= 0 && k < len(full))
	k = verifrt.Concretize(k)
	fault := verifrt.ErrValue("src")
	src := &vzSrc{data: full[:k], err: fault, withLast: verifrt.Pick("with", 2) == 1 && k > 0}
	var r io.Reader = src
	if verifrt.Pick("buf", 2) == 1 {
		r = bufio.NewReaderSize(src, 16)
	}
	z, err := NewReader(r)
	verifrt.Observe("k", uint64(k))
	if err != nil {
		verifrt.Cover("header-fault")
		verifrt.Assert(err == fault, "C15:zlib-header-error-identity")
		return
	}
	out, rerr := vzDrain(z, 2, 16)
	verifrt.ObserveBytes("out", out)
	verifrt.Cover("body-fault")
	verifrt.Assert(rerr == fault, "C15:zlib-error-identity")
	verifrt.Assert(vhPrefix(out, []byte("abc")), "C15:zlib-prefix")
	k2, e2 := z.Read(make([]byte, 4))
	verifrt.Assert(k2 == 0 && e2 == fault, "C15:zlib-sticky")
}

type vzFailSink struct {
	b       []byte
	calls   int
	failAt  int
	err     error
	failed  bool
	recover bool
}

func (s *vzFailSink) Write(p []byte) (int, error) {
	s.calls++
	if s.failAt != 0 && s.calls >= s.failAt && !s.failed {
		s.failed = true
		return 0, s.err
	}
	if s.failed && !s.recover {
		return 0, s.err
	}
	s.b = append(s.b, p...)
	return len(p), nil
}

// VerifZlWrFail (C14, zlib): destination fails at its k-th call (header, dictionary id, body or trailer writes).
func VerifZlWrFail() {
	levels := [3]int{0, 1, 2}
	level := levels[verifrt.Pick("level", 3)]
	var dict []byte
	if verifrt.Pick("dict", 2) == 1 {
		dict = vzDict
	}
	K := verifrt.Param("K")
	fault := verifrt.ErrValue("dst")
	k := int(verifrt.U8())
	verifrt.Assume(k >= 1 && k <= verifrt.Param("KMAX"))
	sink := &vzFailSink{failAt: verifrt.Concretize(k), err: fault, recover: verifrt.Pick("recover", 2) == 1}
	w, _ := NewWriterLevelDict(sink, level, dict)
	for i := 0; i < K; i++ {
		op := int(verifrt.U8())
		verifrt.Assume(op < 3)
		op = verifrt.Concretize(op)
		was := sink.failed
		before := sink.calls
		var err error
		switch op {
		case 0:
			_, err = w.Write([]byte("hello"))
		case 1:
			err = w.Flush()
		case 2:
			err = w.Close()
		}
		if was {
			verifrt.Cover("op-after-failure")
			verifrt.Assert(err != nil, "C14:zlib-not-sticky")
			verifrt.Assert(sink.calls == before, "C14:zlib-destination-touched-after-failure")
		} else if sink.failed {
			verifrt.Cover("failure-reported")
			verifrt.Assert(err == fault, "C14:zlib-failure-not-reported")
		}
	}
}
