package main

// Hash-consed bit-vector / Bool term DAG with eager simplification,
// an SMT-LIB2 printer and a concrete evaluator (used for models).

import (
	"fmt"
	"math/bits"
	"strings"
)

type Op uint8

const (
	OpConst Op = iota // bit-vector constant (k), width w
	OpBool            // bool constant (k = 0/1), w = 0
	OpVar             // free variable, name
	OpAdd
	OpSub
	OpMul
	OpUDiv
	OpURem
	OpSDiv
	OpSRem
	OpAnd
	OpOr
	OpXor
	OpNot
	OpNeg
	OpShl
	OpLShr
	OpAShr
	OpExtract // k = hi<<16 | lo
	OpConcat  // a = high part, b = low part
	OpZExt
	OpSExt
	OpIte // a = cond(bool), b, c
	OpEq
	OpUlt
	OpUle
	OpSlt
	OpSle
	OpBAnd
	OpBOr
	OpBNot
	OpLut // a = index, k = lut id (TermStore.luts), result width w
	OpUF  // uninterpreted function: name, args a,b (b may be nil)
)

var opNames = map[Op]string{
	OpAdd: "bvadd", OpSub: "bvsub", OpMul: "bvmul", OpUDiv: "bvudiv", OpURem: "bvurem",
	OpSDiv: "bvsdiv", OpSRem: "bvsrem", OpAnd: "bvand", OpOr: "bvor", OpXor: "bvxor",
	OpNot: "bvnot", OpNeg: "bvneg", OpShl: "bvshl", OpLShr: "bvlshr", OpAShr: "bvashr",
	OpEq: "=", OpUlt: "bvult", OpUle: "bvule", OpSlt: "bvslt", OpSle: "bvsle",
	OpBAnd: "and", OpBOr: "or", OpBNot: "not", OpIte: "ite", OpConcat: "concat",
}

// Term is a node. w == 0 means Bool sort.
type Term struct {
	op      Op
	w       uint16
	a, b, c *Term
	k       uint64
	name    string
	id      int
	emitted bool // defined in the current solver scope
}

func (t *Term) IsConst() bool { return t.op == OpConst || t.op == OpBool }
func (t *Term) IsBool() bool  { return t.w == 0 }

type termKey struct {
	op      Op
	w       uint16
	a, b, c int
	k       uint64
	name    string
}

// Lut is a constant table addressed by a symbolic index.
type Lut struct {
	id     int
	iw     uint16 // index width
	vw     uint16 // value width
	vals   []uint64
	hash   string
	defStr string // cached define-fun text
}

type TermStore struct {
	tab    map[termKey]*Term
	nextID int
	vars   []*Term
	luts   []*Lut
	lutBy  map[string]*Lut
	ufs    map[string]string // name -> declaration
	nNodes int
}

func NewTermStore() *TermStore {
	return &TermStore{tab: map[termKey]*Term{}, lutBy: map[string]*Lut{}, ufs: map[string]string{}}
}

func tid(t *Term) int {
	if t == nil {
		return -1
	}
	return t.id
}

func mask(w uint16) uint64 {
	if w >= 64 {
		return ^uint64(0)
	}
	return (uint64(1) << w) - 1
}

func sext(v uint64, w uint16) int64 {
	if w >= 64 {
		return int64(v)
	}
	sh := 64 - uint(w)
	return int64(v<<sh) >> sh
}

func (s *TermStore) mk(op Op, w uint16, a, b, c *Term, k uint64, name string) *Term {
	key := termKey{op, w, tid(a), tid(b), tid(c), k, name}
	if t, ok := s.tab[key]; ok {
		return t
	}
	t := &Term{op: op, w: w, a: a, b: b, c: c, k: k, name: name, id: s.nextID}
	s.nextID++
	s.tab[key] = t
	s.nNodes++
	return t
}

func (s *TermStore) Const(v uint64, w uint16) *Term {
	if w == 0 {
		panic("Const with width 0")
	}
	return s.mk(OpConst, w, nil, nil, nil, v&mask(w), "")
}

func (s *TermStore) Bool(b bool) *Term {
	k := uint64(0)
	if b {
		k = 1
	}
	return s.mk(OpBool, 0, nil, nil, nil, k, "")
}

func (s *TermStore) Var(name string, w uint16) *Term {
	t := s.mk(OpVar, w, nil, nil, nil, 0, name)
	if t.id == s.nextID-1 && (len(s.vars) == 0 || s.vars[len(s.vars)-1] != t) {
		s.vars = append(s.vars, t)
	}
	return t
}

func evalBin(op Op, x, y uint64, w uint16) uint64 {
	m := mask(w)
	x &= m
	y &= m
	switch op {
	case OpAdd:
		return (x + y) & m
	case OpSub:
		return (x - y) & m
	case OpMul:
		return (x * y) & m
	case OpUDiv:
		if y == 0 {
			return m
		}
		return x / y
	case OpURem:
		if y == 0 {
			return x
		}
		return x % y
	case OpSDiv:
		sx, sy := sext(x, w), sext(y, w)
		if sy == 0 {
			if sx < 0 {
				return 1
			}
			return m
		}
		if sy == -1 {
			return uint64(-sx) & m
		}
		return uint64(sx/sy) & m
	case OpSRem:
		sx, sy := sext(x, w), sext(y, w)
		if sy == 0 {
			return x
		}
		if sy == -1 {
			return 0
		}
		return uint64(sx%sy) & m
	case OpAnd:
		return x & y
	case OpOr:
		return x | y
	case OpXor:
		return x ^ y
	case OpShl:
		if y >= uint64(w) {
			return 0
		}
		return (x << y) & m
	case OpLShr:
		if y >= uint64(w) {
			return 0
		}
		return x >> y
	case OpAShr:
		sx := sext(x, w)
		if y >= uint64(w) {
			if sx < 0 {
				return m
			}
			return 0
		}
		return uint64(sx>>y) & m
	}
	panic("evalBin")
}

func evalCmp(op Op, x, y uint64, w uint16) bool {
	m := mask(w)
	x &= m
	y &= m
	switch op {
	case OpEq:
		return x == y
	case OpUlt:
		return x < y
	case OpUle:
		return x <= y
	case OpSlt:
		return sext(x, w) < sext(y, w)
	case OpSle:
		return sext(x, w) <= sext(y, w)
	}
	panic("evalCmp")
}

// Bin builds a binary bit-vector operation with simplification.
func (s *TermStore) Bin(op Op, a, b *Term) *Term {
	if a.w != b.w {
		panic(fmt.Sprintf("Bin %v width mismatch %d vs %d", opNames[op], a.w, b.w))
	}
	w := a.w
	if a.op == OpConst && b.op == OpConst {
		return s.Const(evalBin(op, a.k, b.k, w), w)
	}
	// commutative: constant to the right
	switch op {
	case OpAdd, OpMul, OpAnd, OpOr, OpXor:
		if a.op == OpConst {
			a, b = b, a
		}
	}
	m := mask(w)
	if b.op == OpConst {
		k := b.k
		switch op {
		case OpAdd, OpSub, OpOr, OpXor, OpShl, OpLShr, OpAShr:
			if k == 0 {
				return a
			}
		case OpMul:
			if k == 0 {
				return b
			}
			if k == 1 {
				return a
			}
			if k&(k-1) == 0 {
				return s.Bin(OpShl, a, s.Const(uint64(bits.TrailingZeros64(k)), w))
			}
		case OpUDiv:
			if k == 1 {
				return a
			}
			if k != 0 && k&(k-1) == 0 {
				return s.Bin(OpLShr, a, s.Const(uint64(bits.TrailingZeros64(k)), w))
			}
		case OpURem:
			if k == 1 {
				return s.Const(0, w)
			}
			if k != 0 && k&(k-1) == 0 {
				return s.Bin(OpAnd, a, s.Const(k-1, w))
			}
		case OpAnd:
			if k == 0 {
				return b
			}
			if k == m {
				return a
			}
		}
		switch op {
		case OpOr:
			if k == m {
				return b
			}
		case OpShl, OpLShr:
			if k >= uint64(w) {
				return s.Const(0, w)
			}
		}
		// (x + c1) + c2
		if op == OpAdd && a.op == OpAdd && a.b.op == OpConst {
			return s.Bin(OpAdd, a.a, s.Const(a.b.k+k, w))
		}
		if op == OpSub {
			return s.Bin(OpAdd, a, s.Const(-k, w))
		}
		// and with low mask -> zext(extract)
		if op == OpAnd && k&(k+1) == 0 && k != 0 {
			n := uint16(bits.Len64(k))
			if n < w {
				return s.ZExt(s.Extract(a, n-1, 0), w)
			}
		}
		// shifts by constant on zext/extract: lshr(x,k) = zext(extract(x, w-1, k))
		if op == OpLShr && k < uint64(w) {
			return s.ZExt(s.Extract(a, w-1, uint16(k)), w)
		}
		if op == OpShl && k < uint64(w) {
			// concat(extract(x, w-1-k, 0), 0_k)
			return s.Concat(s.Extract(a, w-1-uint16(k), 0), s.Const(0, uint16(k)))
		}
	}
	if a.op == OpConst {
		switch op {
		case OpShl, OpLShr, OpAShr, OpUDiv, OpURem:
			if a.k == 0 {
				return a
			}
		}
	}
	if a == b {
		switch op {
		case OpXor, OpSub:
			return s.Const(0, w)
		case OpAnd, OpOr:
			return a
		}
	}
	// or / xor / add of disjoint zero-extended pieces: keep as is (solver handles)
	return s.mk(op, w, a, b, nil, 0, "")
}

func (s *TermStore) Not(a *Term) *Term {
	if a.op == OpConst {
		return s.Const(^a.k, a.w)
	}
	if a.op == OpNot {
		return a.a
	}
	return s.mk(OpNot, a.w, a, nil, nil, 0, "")
}

func (s *TermStore) Neg(a *Term) *Term {
	if a.op == OpConst {
		return s.Const(-a.k, a.w)
	}
	return s.mk(OpNeg, a.w, a, nil, nil, 0, "")
}

func (s *TermStore) Extract(a *Term, hi, lo uint16) *Term {
	if hi < lo || hi >= a.w {
		panic(fmt.Sprintf("Extract bad range %d..%d of %d", hi, lo, a.w))
	}
	nw := hi - lo + 1
	if nw == a.w {
		return a
	}
	switch a.op {
	case OpConst:
		return s.Const(a.k>>lo, nw)
	case OpExtract:
		ilo := uint16(a.k & 0xffff)
		return s.Extract(a.a, hi+ilo, lo+ilo)
	case OpConcat:
		lw := a.b.w
		if hi < lw {
			return s.Extract(a.b, hi, lo)
		}
		if lo >= lw {
			return s.Extract(a.a, hi-lw, lo-lw)
		}
		return s.Concat(s.Extract(a.a, hi-lw, 0), s.Extract(a.b, lw-1, lo))
	case OpZExt:
		iw := a.a.w
		if hi < iw {
			return s.Extract(a.a, hi, lo)
		}
		if lo >= iw {
			return s.Const(0, nw)
		}
		return s.ZExt(s.Extract(a.a, iw-1, lo), nw)
	case OpSExt:
		iw := a.a.w
		if hi < iw {
			return s.Extract(a.a, hi, lo)
		}
	case OpAnd, OpOr, OpXor:
		if lo == 0 || true {
			// distribute over bitwise ops when one side is constant
			if a.b.op == OpConst {
				return s.Bin(a.op, s.Extract(a.a, hi, lo), s.Extract(a.b, hi, lo))
			}
		}
	case OpAdd, OpSub, OpMul:
		if lo == 0 {
			return s.Bin(a.op, s.Extract(a.a, hi, 0), s.Extract(a.b, hi, 0))
		}
	case OpIte:
		if a.b.op == OpConst || a.c.op == OpConst {
			return s.Ite(a.a, s.Extract(a.b, hi, lo), s.Extract(a.c, hi, lo))
		}
	}
	return s.mk(OpExtract, nw, a, nil, nil, uint64(hi)<<16|uint64(lo), "")
}

func (s *TermStore) Concat(hi, lo *Term) *Term {
	w := hi.w + lo.w
	if w > 64 {
		panic("Concat wider than 64")
	}
	if hi.op == OpConst && lo.op == OpConst {
		return s.Const(hi.k<<lo.w|lo.k, w)
	}
	if hi.op == OpConst && hi.k == 0 {
		return s.ZExt(lo, w)
	}
	// adjacent extracts of the same term
	if hi.op == OpExtract && lo.op == OpExtract && hi.a == lo.a {
		hlo := uint16(hi.k & 0xffff)
		lhi := uint16(lo.k >> 16)
		if hlo == lhi+1 {
			return s.Extract(hi.a, uint16(hi.k>>16), uint16(lo.k&0xffff))
		}
	}
	// extract(x, hi, m+1) ++ (low part being the full low term x' where hi.a == lo and lo covers bits 0..)
	if hi.op == OpExtract && hi.a == lo && uint16(hi.k&0xffff) == lo.w {
		return s.Extract(lo, uint16(hi.k>>16), 0)
	}
	// concat(zext... ) nested: concat(hi, concat(m, l)) keep right-nested canonical
	if hi.op == OpConcat {
		return s.Concat(hi.a, s.Concat(hi.b, lo))
	}
	// merge through right-nested concat: hi ++ (m ++ l) where hi,m adjacent extracts
	if lo.op == OpConcat && hi.op == OpExtract && lo.a.op == OpExtract && hi.a == lo.a.a {
		hlo := uint16(hi.k & 0xffff)
		lhi := uint16(lo.a.k >> 16)
		if hlo == lhi+1 {
			return s.Concat(s.Extract(hi.a, uint16(hi.k>>16), uint16(lo.a.k&0xffff)), lo.b)
		}
	}
	if lo.op == OpConcat && hi.op == OpConst && lo.a.op == OpConst {
		return s.Concat(s.Const(hi.k<<lo.a.w|lo.a.k, hi.w+lo.a.w), lo.b)
	}
	return s.mk(OpConcat, w, hi, lo, nil, 0, "")
}

func (s *TermStore) ZExt(a *Term, w uint16) *Term {
	if w == a.w {
		return a
	}
	if w < a.w {
		return s.Extract(a, w-1, 0)
	}
	if a.op == OpConst {
		return s.Const(a.k, w)
	}
	if a.op == OpZExt {
		return s.ZExt(a.a, w)
	}
	return s.mk(OpZExt, w, a, nil, nil, 0, "")
}

func (s *TermStore) SExt(a *Term, w uint16) *Term {
	if w == a.w {
		return a
	}
	if w < a.w {
		return s.Extract(a, w-1, 0)
	}
	if a.op == OpConst {
		return s.Const(uint64(sext(a.k, a.w)), w)
	}
	if a.op == OpZExt {
		return s.ZExt(a.a, w)
	}
	if a.op == OpSExt {
		return s.SExt(a.a, w)
	}
	return s.mk(OpSExt, w, a, nil, nil, 0, "")
}

func (s *TermStore) Ite(c, a, b *Term) *Term {
	if c.op == OpBool {
		if c.k == 1 {
			return a
		}
		return b
	}
	if a == b {
		return a
	}
	if a.w == 0 {
		// boolean ite
		if a.op == OpBool && b.op == OpBool {
			if a.k == 1 {
				return c
			}
			return s.BNot(c)
		}
		return s.BOr(s.BAnd(c, a), s.BAnd(s.BNot(c), b))
	}
	if c.op == OpBNot {
		return s.Ite(c.a, b, a)
	}
	return s.mk(OpIte, a.w, c, a, b, 0, "")
}

// maxVal returns a cheap upper bound of an unsigned term value.
func (s *TermStore) maxVal(t *Term) uint64 {
	switch t.op {
	case OpConst:
		return t.k
	case OpZExt:
		return s.maxVal(t.a)
	case OpIte:
		x, y := s.maxVal(t.b), s.maxVal(t.c)
		if x > y {
			return x
		}
		return y
	case OpAnd:
		x, y := s.maxVal(t.a), s.maxVal(t.b)
		if x < y {
			return x
		}
		return y
	case OpLut:
		l := s.luts[t.k]
		var m uint64
		for _, v := range l.vals {
			if v > m {
				m = v
			}
		}
		return m
	case OpConcat:
		if t.a.op == OpConst {
			return t.a.k<<t.b.w | s.maxVal(t.b)
		}
	}
	return mask(t.w)
}

func (s *TermStore) Cmp(op Op, a, b *Term) *Term {
	if a.w != b.w {
		panic(fmt.Sprintf("Cmp width mismatch %d vs %d", a.w, b.w))
	}
	if a.w == 0 {
		// bool equality
		if op != OpEq {
			panic("bool cmp")
		}
		if a.op == OpBool {
			if a.k == 1 {
				return b
			}
			return s.BNot(b)
		}
		if b.op == OpBool {
			if b.k == 1 {
				return a
			}
			return s.BNot(a)
		}
		if a == b {
			return s.Bool(true)
		}
		return s.mk(OpEq, 0, a, b, nil, 0, "")
	}
	if a.op == OpConst && b.op == OpConst {
		return s.Bool(evalCmp(op, a.k, b.k, a.w))
	}
	if a == b {
		switch op {
		case OpEq, OpUle, OpSle:
			return s.Bool(true)
		default:
			return s.Bool(false)
		}
	}
	if op == OpEq && a.op == OpConst {
		a, b = b, a
	}
	if op == OpEq && b.op == OpConst {
		// zext(x) == c
		if a.op == OpZExt {
			if b.k > mask(a.a.w) {
				return s.Bool(false)
			}
			return s.Cmp(OpEq, a.a, s.Const(b.k, a.a.w))
		}
		if a.op == OpIte && a.b.op == OpConst && a.c.op == OpConst {
			tb, tc := a.b.k == b.k, a.c.k == b.k
			switch {
			case tb && tc:
				return s.Bool(true)
			case tb:
				return a.a
			case tc:
				return s.BNot(a.a)
			default:
				return s.Bool(false)
			}
		}
		if b.k > s.maxVal(a) {
			return s.Bool(false)
		}
	}
	// unsigned compare of zext against constant range
	if (op == OpUlt || op == OpUle) && b.op == OpConst {
		mv := s.maxVal(a)
		if op == OpUlt && mv < b.k {
			return s.Bool(true)
		}
		if op == OpUle && mv <= b.k {
			return s.Bool(true)
		}
		if op == OpUlt && b.k == 0 {
			return s.Bool(false)
		}
		if a.op == OpZExt && b.k <= mask(a.a.w) {
			return s.Cmp(op, a.a, s.Const(b.k, a.a.w))
		}
	}
	if (op == OpUlt || op == OpUle) && a.op == OpConst {
		mv := s.maxVal(b)
		if op == OpUlt && a.k >= mv {
			return s.Bool(false)
		}
		if op == OpUle && a.k > mv {
			return s.Bool(false)
		}
		if op == OpUle && a.k == 0 {
			return s.Bool(true)
		}
	}
	// signed compare where both are provably non-negative -> unsigned
	if op == OpSlt || op == OpSle {
		top := uint64(1) << (a.w - 1)
		if s.maxVal(a) < top && s.maxVal(b) < top {
			if op == OpSlt {
				return s.Cmp(OpUlt, a, b)
			}
			return s.Cmp(OpUle, a, b)
		}
	}
	return s.mk(op, 0, a, b, nil, 0, "")
}

func (s *TermStore) BNot(a *Term) *Term {
	if a.op == OpBool {
		return s.Bool(a.k == 0)
	}
	if a.op == OpBNot {
		return a.a
	}
	return s.mk(OpBNot, 0, a, nil, nil, 0, "")
}

func (s *TermStore) BAnd(a, b *Term) *Term {
	if a.op == OpBool {
		if a.k == 1 {
			return b
		}
		return a
	}
	if b.op == OpBool {
		if b.k == 1 {
			return a
		}
		return b
	}
	if a == b {
		return a
	}
	return s.mk(OpBAnd, 0, a, b, nil, 0, "")
}

func (s *TermStore) BOr(a, b *Term) *Term {
	if a.op == OpBool {
		if a.k == 1 {
			return a
		}
		return b
	}
	if b.op == OpBool {
		if b.k == 1 {
			return b
		}
		return a
	}
	if a == b {
		return a
	}
	return s.mk(OpBOr, 0, a, b, nil, 0, "")
}

// knownBits returns (mask of bits with known value, their values).
func (s *TermStore) knownBits(t *Term) (uint64, uint64) {
	switch t.op {
	case OpConst:
		return mask(t.w), t.k
	case OpConcat:
		hm, hv := s.knownBits(t.a)
		lm, lv := s.knownBits(t.b)
		return hm<<t.b.w | lm, hv<<t.b.w | lv
	case OpZExt:
		m, v := s.knownBits(t.a)
		return m | (mask(t.w) &^ mask(t.a.w)), v
	case OpExtract:
		m, v := s.knownBits(t.a)
		lo := t.k & 0xffff
		return (m >> lo) & mask(t.w), (v >> lo) & mask(t.w)
	case OpOr:
		am, av := s.knownBits(t.a)
		bm, bv := s.knownBits(t.b)
		ones := (am & av) | (bm & bv)
		zeros := (am &^ av) & (bm &^ bv)
		return ones | zeros, ones
	case OpAnd:
		am, av := s.knownBits(t.a)
		bm, bv := s.knownBits(t.b)
		zeros := (am &^ av) | (bm &^ bv)
		ones := (am & av) & (bm & bv)
		return ones | zeros, ones
	}
	return 0, 0
}

// LutTerm builds table[idx]; vals has one entry per index value 0..len-1; the
// index is assumed (by a preceding bounds check) to be < len(vals).
func (s *TermStore) LutTerm(vals []uint64, vw uint16, idx *Term) *Term {
	if idx.op == OpConst {
		if idx.k < uint64(len(vals)) {
			return s.Const(vals[idx.k], vw)
		}
		return s.Const(0, vw)
	}
	all := true
	for _, v := range vals {
		if v != vals[0] {
			all = false
			break
		}
	}
	if all && len(vals) > 0 {
		return s.Const(vals[0], vw)
	}
	// reduce index width to what is needed
	need := uint16(bits.Len64(uint64(len(vals) - 1)))
	if need == 0 {
		need = 1
	}
	if idx.w > need {
		// the preceding bounds check guarantees idx < len(vals) <= 2^need
		idx = s.Extract(idx, need-1, 0)
	}
	// partial evaluation on known index bits
	if km, kv := s.knownBits(idx); km != 0 {
		unk := ^km & mask(idx.w)
		nunk := bits.OnesCount64(unk)
		if nunk <= 16 {
			// positions of unknown bits
			var pos []uint16
			for i := uint16(0); i < idx.w; i++ {
				if unk>>i&1 == 1 {
					pos = append(pos, i)
				}
			}
			sub := make([]uint64, 1<<uint(nunk))
			for j := range sub {
				full := kv
				for bi, p := range pos {
					if j>>uint(bi)&1 == 1 {
						full |= 1 << p
					}
				}
				if full < uint64(len(vals)) {
					sub[j] = vals[full]
				}
			}
			if nunk == 0 {
				return s.Const(sub[0], vw)
			}
			// new index = unknown bits packed, highest position first
			var nidx *Term
			for bi := len(pos) - 1; bi >= 0; bi-- {
				// merge adjacent runs
				hi := pos[bi]
				lo := hi
				for bi > 0 && pos[bi-1] == lo-1 {
					bi--
					lo = pos[bi]
				}
				piece := s.Extract(idx, hi, lo)
				if nidx == nil {
					nidx = piece
				} else {
					nidx = s.Concat(nidx, piece)
				}
			}
			if km2, _ := s.knownBits(nidx); km2 == 0 {
				return s.LutTerm(sub, vw, nidx)
			}
		}
	}
	var sb strings.Builder
	fmt.Fprintf(&sb, "%d/%d/%d:", idx.w, vw, len(vals))
	for _, v := range vals {
		fmt.Fprintf(&sb, "%x,", v)
	}
	h := sb.String()
	l, ok := s.lutBy[h]
	if !ok {
		l = &Lut{id: len(s.luts), iw: idx.w, vw: vw, vals: append([]uint64(nil), vals...), hash: h}
		s.luts = append(s.luts, l)
		s.lutBy[h] = l
	}
	return s.mk(OpLut, vw, idx, nil, nil, uint64(l.id), "")
}

func (s *TermStore) UF(name string, w uint16, a, b *Term) *Term {
	if _, ok := s.ufs[name]; !ok {
		d := fmt.Sprintf("(declare-fun %s (%s", name, sortStr(a.w))
		if b != nil {
			d += " " + sortStr(b.w)
		}
		d += ") " + sortStr(w) + ")"
		s.ufs[name] = d
	}
	return s.mk(OpUF, w, a, b, nil, 0, name)
}

func sortStr(w uint16) string {
	if w == 0 {
		return "Bool"
	}
	return fmt.Sprintf("(_ BitVec %d)", w)
}

func constStr(v uint64, w uint16) string {
	if w%4 == 0 {
		return fmt.Sprintf("#x%0*x", int(w/4), v&mask(w))
	}
	return fmt.Sprintf("#b%0*b", int(w), v&mask(w))
}

// lutDef renders a table as an LSB-first decision tree with sub-tree sharing.
func (l *Lut) define(name string) string {
	var sb strings.Builder
	type key struct {
		a, b int
	}
	// nodes: leaves are values; internal = (bit, lo child, hi child)
	memo := map[string]int{}
	var defs []string
	var build func(idxs []int, bit uint16) int
	leafID := map[uint64]int{}
	nodeStr := []string{}
	nodeUse := []int{}
	newNode := func(str string) int {
		if id, ok := memo[str]; ok {
			nodeUse[id]++
			return id
		}
		id := len(nodeStr)
		nodeStr = append(nodeStr, str)
		nodeUse = append(nodeUse, 1)
		memo[str] = id
		return id
	}
	_ = leafID
	_ = defs
	build = func(idxs []int, bit uint16) int {
		// all same value?
		first := uint64(0)
		if idxs[0] < len(l.vals) {
			first = l.vals[idxs[0]]
		}
		same := true
		for _, i := range idxs[1:] {
			v := uint64(0)
			if i < len(l.vals) {
				v = l.vals[i]
			}
			if v != first {
				same = false
				break
			}
		}
		if same || bit >= l.iw {
			return newNode(constStr(first, l.vw))
		}
		var lo, hi []int
		for _, i := range idxs {
			if i>>bit&1 == 0 {
				lo = append(lo, i)
			} else {
				hi = append(hi, i)
			}
		}
		if len(hi) == 0 {
			return build(lo, bit+1)
		}
		if len(lo) == 0 {
			return build(hi, bit+1)
		}
		a := build(lo, bit+1)
		b := build(hi, bit+1)
		if a == b {
			return a
		}
		return newNode(fmt.Sprintf("(ite (= ((_ extract %d %d) i) #b1) @%d@ @%d@)", bit, bit, b, a))
	}
	n := 1 << l.iw
	if l.iw > 20 {
		panic("lut index too wide")
	}
	// only indices < len(vals) matter, but keep the full power of two so that
	// sharing works; out-of-range indices read as the value of index mod ... (unreachable)
	idxs := make([]int, 0, n)
	for i := 0; i < n; i++ {
		if i < len(l.vals) {
			idxs = append(idxs, i)
		}
	}
	root := build(idxs, 0)
	// emit as nested lets for shared nodes
	var expand func(id int) string
	letNames := map[int]string{}
	var lets []string
	expand = func(id int) string {
		if nm, ok := letNames[id]; ok {
			return nm
		}
		str := nodeStr[id]
		if !strings.HasPrefix(str, "(ite") {
			return str
		}
		// replace child refs
		var out strings.Builder
		for i := 0; i < len(str); i++ {
			if str[i] == '@' {
				j := strings.IndexByte(str[i+1:], '@')
				var cid int
				fmt.Sscanf(str[i+1:i+1+j], "%d", &cid)
				out.WriteString(expand(cid))
				i += j + 1
			} else {
				out.WriteByte(str[i])
			}
		}
		res := out.String()
		if nodeUse[id] > 1 {
			nm := fmt.Sprintf("n%d", id)
			lets = append(lets, fmt.Sprintf("(%s %s)", nm, res))
			letNames[id] = nm
			return nm
		}
		return res
	}
	body := expand(root)
	fmt.Fprintf(&sb, "(define-fun %s ((i %s)) %s ", name, sortStr(l.iw), sortStr(l.vw))
	for _, lt := range lets {
		fmt.Fprintf(&sb, "(let (%s) ", lt)
	}
	sb.WriteString(body)
	for range lets {
		sb.WriteString(")")
	}
	sb.WriteString(")")
	return sb.String()
}

// Eval evaluates a term under an assignment of variables (by name).
func (s *TermStore) Eval(t *Term, env map[string]uint64, memo map[*Term]uint64, uf func(name string, a, b uint64) uint64) uint64 {
	if v, ok := memo[t]; ok {
		return v
	}
	var r uint64
	ev := func(x *Term) uint64 { return s.Eval(x, env, memo, uf) }
	b2u := func(b bool) uint64 {
		if b {
			return 1
		}
		return 0
	}
	switch t.op {
	case OpConst, OpBool:
		r = t.k
	case OpVar:
		r = env[t.name] & mask16(t.w)
	case OpAdd, OpSub, OpMul, OpUDiv, OpURem, OpSDiv, OpSRem, OpAnd, OpOr, OpXor, OpShl, OpLShr, OpAShr:
		r = evalBin(t.op, ev(t.a), ev(t.b), t.w)
	case OpNot:
		r = ^ev(t.a) & mask(t.w)
	case OpNeg:
		r = -ev(t.a) & mask(t.w)
	case OpExtract:
		r = (ev(t.a) >> (t.k & 0xffff)) & mask(t.w)
	case OpConcat:
		r = ev(t.a)<<t.b.w | ev(t.b)
	case OpZExt:
		r = ev(t.a)
	case OpSExt:
		r = uint64(sext(ev(t.a), t.a.w)) & mask(t.w)
	case OpIte:
		if ev(t.a) != 0 {
			r = ev(t.b)
		} else {
			r = ev(t.c)
		}
	case OpEq:
		if t.a.w == 0 {
			r = b2u(ev(t.a) == ev(t.b))
		} else {
			r = b2u(evalCmp(OpEq, ev(t.a), ev(t.b), t.a.w))
		}
	case OpUlt, OpUle, OpSlt, OpSle:
		r = b2u(evalCmp(t.op, ev(t.a), ev(t.b), t.a.w))
	case OpBAnd:
		r = b2u(ev(t.a) != 0 && ev(t.b) != 0)
	case OpBOr:
		r = b2u(ev(t.a) != 0 || ev(t.b) != 0)
	case OpBNot:
		r = b2u(ev(t.a) == 0)
	case OpLut:
		l := s.luts[t.k]
		i := ev(t.a)
		if i < uint64(len(l.vals)) {
			r = l.vals[i]
		}
	case OpUF:
		var bv uint64
		if t.b != nil {
			bv = ev(t.b)
		}
		r = uf(t.name, ev(t.a), bv) & mask16(t.w)
	default:
		panic("Eval: op")
	}
	memo[t] = r
	return r
}

func mask16(w uint16) uint64 {
	if w == 0 {
		return 1
	}
	return mask(w)
}

// support collects the variables a term depends on.
func (s *TermStore) support(t *Term, seen map[*Term]bool, out map[string]bool) {
	if t == nil || seen[t] {
		return
	}
	seen[t] = true
	if t.op == OpVar {
		out[t.name] = true
	}
	s.support(t.a, seen, out)
	s.support(t.b, seen, out)
	s.support(t.c, seen, out)
}

func (t *Term) String() string {
	return termString(t, 0)
}

func termString(t *Term, depth int) string {
	if t == nil {
		return "nil"
	}
	if depth > 6 {
		return fmt.Sprintf("t%d", t.id)
	}
	switch t.op {
	case OpConst:
		return constStr(t.k, t.w)
	case OpBool:
		if t.k == 1 {
			return "true"
		}
		return "false"
	case OpVar:
		return t.name
	case OpExtract:
		return fmt.Sprintf("(extract %d %d %s)", t.k>>16, t.k&0xffff, termString(t.a, depth+1))
	case OpZExt:
		return fmt.Sprintf("(zext%d %s)", t.w, termString(t.a, depth+1))
	case OpSExt:
		return fmt.Sprintf("(sext%d %s)", t.w, termString(t.a, depth+1))
	case OpLut:
		return fmt.Sprintf("(lut%d %s)", t.k, termString(t.a, depth+1))
	case OpUF:
		return fmt.Sprintf("(%s %s %s)", t.name, termString(t.a, depth+1), termString(t.b, depth+1))
	}
	r := "(" + opNames[t.op]
	for _, x := range []*Term{t.a, t.b, t.c} {
		if x != nil {
			r += " " + termString(x, depth+1)
		}
	}
	return r + ")"
}
