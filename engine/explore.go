package main

// Path exploration by re-execution with decision prefixes.

import (
	"fmt"
	"os"
	"hash/crc32"
	"sort"
	"strings"
	"sync"
	"time"

	"golang.org/x/tools/go/ssa"
)

type Decision struct {
	V    uint64 `json:"v"`
	Kind string `json:"k,omitempty"` // "b" branch, "c" concretize
}

type Event struct {
	Kind   string `json:"kind"` // assert | panic | unsupported | inconclusive | budget
	Label  string `json:"label"`
	Origin string `json:"origin,omitempty"`
	Msg    string `json:"msg,omitempty"`
}

type Obs struct {
	Label string `json:"label"`
	Val   string `json:"val"`
}

type PathResult struct {
	ID        int               `json:"id"`
	Prefix    []uint64          `json:"-"`
	Trace     []uint64          `json:"trace"`
	Status    string            `json:"status"` // done | assume | panic | violation | unsupported | budget | inconclusive
	Events    []Event           `json:"events,omitempty"`
	Covers    []string          `json:"covers,omitempty"`
	Inputs    []uint64          `json:"inputs"`
	InputW    []uint16          `json:"input_w"`
	Picks     map[string]int    `json:"picks,omitempty"`
	Obs       []Obs             `json:"obs,omitempty"`
	Steps     int64             `json:"steps"`
	Decisions int               `json:"decisions"`
	Funcs     map[string]int64  `json:"-"`
	Notes     map[string]string `json:"notes,omitempty"`
}

type inputVar struct {
	t *Term
	w uint16
}

// PathCtx is the per-path exploration context.
type PathCtx struct {
	exp      *Explorer
	solver   *Solver
	em       *Emitter
	prefix   []uint64
	pos      int
	trace    []uint64
	lits     []lit
	altModel map[string]uint64
	evalMemo map[*Term]uint64
	model    map[string]uint64
	modelOK  bool
	inputs   []inputVar
	events   []Event
	covers   map[string]bool
	obs      []obsRec
	picks    map[string]int
	params   map[string]int
	hasUF    map[*Term]bool
	memoUF   map[*Term]bool
	trackWrites bool
	writes   map[int]string
	globalWrites []string
	nDec     int
	nNew     int
	funcs    map[string]int64
	fcount   map[*ssa.Function]int64
	seedVals map[string]uint64
	originTag string
	id       int
	phase    int // 0 none, 1 = A, 2 = B (verifrt.Parallel)
	fpR, fpW [3]map[*Object]string
	inOnce   int
	known    map[*Term]uint64
}

type obsRec struct {
	label string
	terms []*Term // each a byte or word
	vals  []Val
	w     uint16
}

func (pc *PathCtx) termHasUF(t *Term) bool {
	if t == nil {
		return false
	}
	if v, ok := pc.memoUF[t]; ok {
		return v
	}
	r := t.op == OpUF || pc.termHasUF(t.a) || pc.termHasUF(t.b) || pc.termHasUF(t.c)
	pc.memoUF[t] = r
	return r
}

// lit is one element of the path condition.
type lit struct {
	t     *Term    // literal that holds on this path
	kind  uint8    // 0 assume, 1 branch, 2 concretise
	ct    *Term    // concretised term (kind 2)
	excl  []uint64 // values already explored (kind 2)
	done  bool     // alternative already handled (eagerly or by an ancestor)
	tpos  int      // position in the decision trace
}

func (pc *PathCtx) addLit(l lit) {
	if l.t.op == OpBool && l.t.k == 1 && l.kind == 0 {
		return
	}
	pc.lits = append(pc.lits, l)
}

// checkPath asks the solver for sat(all literals [+ extra]) and adopts the model when sat.
func (pc *PathCtx) checkPath(in *Interp, extra *Term, adopt bool) string {
	s := pc.solver
	var names []string
	for _, l := range pc.lits {
		names = append(names, pc.em.Name(l.t))
	}
	if extra != nil {
		names = append(names, pc.em.Name(extra))
	}
	s.raw("(push 1)")
	s.scope = s.scope[:0]
	for _, n := range names {
		if n == "true" {
			continue
		}
		a := "(assert " + n + ")"
		s.scope = append(s.scope, a)
		s.raw(a)
	}
	r := s.CheckSat("")
	if r == "sat" && adopt {
		pc.fetchModel(in)
	}
	s.raw("(pop 1)")
	s.scope = s.scope[:0]
	return r
}

func ufEval(name string, a, b uint64) uint64 {
	switch name {
	case "crcF":
		return uint64(crc32.Update(uint32(a), crc32.IEEETable, []byte{byte(b)}))
	case "adlerF":
		s1, s2 := uint32(a)&0xffff, uint32(a)>>16
		s1 = (s1 + uint32(byte(b))) % 65521
		s2 = (s2 + s1) % 65521
		return uint64(s2<<16 | s1)
	}
	return 0
}

func (pc *PathCtx) evalModel(in *Interp, t *Term) uint64 {
	return in.ts.Eval(t, pc.model, pc.evalMemo, ufEval)
}

// ensureModel obtains a model of the current path condition.
func (pc *PathCtx) ensureModel(in *Interp) {
	if pc.modelOK {
		return
	}
	res := pc.checkPath(in, nil, true)
	if res != "sat" {
		if res == "unsat" {
			if dbgOn {
				for i, l := range pc.lits {
					fmt.Fprintf(os.Stderr, "lit %d kind %d done %v: %s\n", i, l.kind, l.done, l.t.String())
				}
			}
			in.end("infeasible", "path condition unsatisfiable")
		}
		in.end("inconclusive", "solver %s on path condition (%s)", res, lastSolverError)
	}
}

func (pc *PathCtx) fetchModel(in *Interp) {
	names := make([]string, 0, len(in.ts.vars))
	for _, v := range in.ts.vars {
		if _, ok := pc.em.names[v]; ok {
			names = append(names, v.name)
		}
	}
	m, err := pc.solver.GetValues(names)
	if err != nil {
		in.end("inconclusive", "get-value failed: %v", err)
	}
	pc.model = m
	pc.evalMemo = map[*Term]uint64{}
	pc.modelOK = true
}

func (pc *PathCtx) budgetCheck(in *Interp) {
	pc.nDec++
	if pc.nDec > pc.exp.cfg.MaxDecisions {
		in.end("budget", "unwinding bound: more than %d symbolic decisions on one path (%s)", pc.exp.cfg.MaxDecisions, in.where())
	}
}

// assume adds a constraint; the path ends when it cannot hold.
func (pc *PathCtx) assume(in *Interp, t *Term) {
	if t.op == OpBool {
		if t.k == 0 {
			in.end("assume", "")
		}
		return
	}
	pc.addLit(lit{t: t, kind: 0})
	if pc.modelOK && !pc.termHasUF(t) {
		if pc.evalModel(in, t) != 0 {
			return
		}
	}
	if pc.pos < len(pc.prefix) && !pc.modelOK {
		return // checked when the model is first needed
	}
	savedModel, savedOK := pc.model, pc.modelOK
	pc.modelOK = false
	r := pc.checkPath(in, nil, true)
	if r == "unsat" {
		// the assumption cannot hold on this path: drop it again so that the
		// alternatives of the earlier decisions are still explored at path end
		pc.lits = pc.lits[:len(pc.lits)-1]
		pc.model, pc.modelOK = savedModel, savedOK
		pc.evalMemo = map[*Term]uint64{}
		in.end("assume", "")
	}
	if r != "sat" {
		in.end("inconclusive", "solver %s on assumption (%s)", r, lastSolverError)
	}
}

// decide resolves a symbolic branch by following the current model; the other
// side is checked (and scheduled) when the path ends.
func (pc *PathCtx) decide(in *Interp, t *Term, what string) bool {
	if t.op == OpBool {
		return t.k == 1
	}
	pc.budgetCheck(in)
	if pc.pos < len(pc.prefix) {
		d := pc.prefix[pc.pos]
		pc.pos++
		pc.trace = append(pc.trace, d)
		pc.addLit(lit{t: ifThen(d == 1, t, in.ts.BNot(t)), kind: 1, done: true, tpos: len(pc.trace) - 1})
		return d == 1
	}
	pc.nNew++
	if pc.exp.cfg.Tally {
		pc.exp.tally(what, in.curFn())
	}
	if pc.termHasUF(t) {
		return pc.decideEager(in, t, what)
	}
	pc.ensureModel(in)
	side := pc.evalModel(in, t) != 0
	pc.trace = append(pc.trace, b2u(side))
	pc.addLit(lit{t: ifThen(side, t, in.ts.BNot(t)), kind: 1, tpos: len(pc.trace) - 1})
	return side
}

// decideEager queries both sides explicitly (conditions over uninterpreted functions).
func (pc *PathCtx) decideEager(in *Interp, t *Term, what string) bool {
	rt := pc.checkPath(in, t, false)
	rf := pc.checkPath(in, in.ts.BNot(t), false)
	if rt == "unknown" || rf == "unknown" {
		pc.note(in, "inconclusive", what, "solver unknown on a branch over uninterpreted functions")
	}
	var side bool
	switch {
	case rt == "sat":
		side = true
		if rf == "sat" {
			alt := append(append([]uint64(nil), pc.trace...), 0)
			pc.exp.push(alt, nil)
		}
	case rf == "sat":
		side = false
	default:
		in.end("infeasible", "both sides of a branch infeasible")
	}
	pc.trace = append(pc.trace, b2u(side))
	pc.addLit(lit{t: ifThen(side, t, in.ts.BNot(t)), kind: 1, done: true, tpos: len(pc.trace) - 1})
	pc.modelOK = false
	return side
}

func ifThen(c bool, a, b *Term) *Term {
	if c {
		return a
	}
	return b
}

func b2u(b bool) uint64 {
	if b {
		return 1
	}
	return 0
}

// concretize case-splits on the value of t.
func (pc *PathCtx) concretize(in *Interp, t *Term, what string) uint64 {
	if t.op == OpConst {
		return t.k
	}
	pc.budgetCheck(in)
	if pc.pos < len(pc.prefix) {
		d := pc.prefix[pc.pos]
		pc.pos++
		pc.trace = append(pc.trace, d)
		pc.addLit(lit{t: in.ts.Cmp(OpEq, t, in.ts.Const(d, t.w)), kind: 2, ct: t, done: true, tpos: len(pc.trace) - 1})
		pc.learn(t, d)
		return d
	}
	pc.nNew++
	if pc.exp.cfg.Tally {
		pc.exp.tally("conc:"+what, in.curFn())
	}
	if pc.termHasUF(t) {
		in.end("unsupported", "concretisation of a term over uninterpreted functions (%s)", what)
	}
	pc.ensureModel(in)
	v0 := pc.evalModel(in, t)
	pc.trace = append(pc.trace, v0)
	pc.addLit(lit{t: in.ts.Cmp(OpEq, t, in.ts.Const(v0, t.w)), kind: 2, ct: t, excl: []uint64{v0}, tpos: len(pc.trace) - 1})
	pc.learn(t, v0)
	return v0
}

// learn records that term t has the concrete value v on this path and derives
// the values of sub-terms that are determined by it.
func (pc *PathCtx) learn(t *Term, v uint64) {
	for depth := 0; depth < 8 && t != nil; depth++ {
		if t.op == OpConst {
			return
		}
		v &= mask(t.w)
		pc.known[t] = v
		switch t.op {
		case OpAdd:
			if t.b.op == OpConst {
				v = v - t.b.k
				t = t.a
				continue
			}
		case OpSub:
			if t.a.op == OpConst {
				v = t.a.k - v
				t = t.b
				continue
			}
			if t.b.op == OpConst {
				v = v + t.b.k
				t = t.a
				continue
			}
		case OpZExt:
			t = t.a
			continue
		case OpSExt:
			t = t.a
			continue
		case OpNeg:
			v = -v
			t = t.a
			continue
		case OpNot:
			v = ^v
			t = t.a
			continue
		}
		return
	}
}

// flush finds every feasible divergence from this path among its new decisions
// and schedules it (with a model) as a new path.
func (pc *PathCtx) flush(in *Interp) {
	if pc.solver.dead {
		return
	}
	ts := in.ts
	for iter := 0; ; iter++ {
		// G = OR_i (prefix_i AND alt_i)
		g := ts.Bool(false)
		any := false
		for k := len(pc.lits) - 1; k >= 0; k-- {
			l := &pc.lits[k]
			if l.kind == 0 || l.done {
				if g.op == OpBool && g.k == 0 {
					continue
				}
				g = ts.BAnd(l.t, g)
				continue
			}
			var alt *Term
			if l.kind == 1 {
				alt = ts.BNot(l.t)
			} else {
				alt = ts.Bool(true)
				for _, v := range l.excl {
					alt = ts.BAnd(alt, ts.BNot(ts.Cmp(OpEq, l.ct, ts.Const(v, l.ct.w))))
				}
			}
			any = true
			g = ts.BOr(alt, ts.BAnd(l.t, g))
		}
		if !any {
			return
		}
		// literals before the first open decision are part of g already (conjunctions)
		s := pc.solver
		gname := pc.em.Name(g)
		s.raw("(push 1)")
		a := "(assert " + gname + ")"
		s.scope = append(s.scope[:0], a)
		s.raw(a)
		r := s.CheckSat("")
		if r != "sat" {
			if r == "unsat" && pc.exp.cfg.CrossCheck > 0 && pc.id%pc.exp.cfg.CrossCheck == 0 {
				// second opinion on the query that closes this path class
				v := s.CrossCheck()
				pc.exp.noteCross(v)
				if v == "sat" {
					pc.events = append(pc.events, Event{Kind: "inconclusive", Label: "solver-disagreement", Msg: "z3 5.1.0 says unsat, z3 4.8.12 says sat on the closing query of a path class"})
				}
			}
			s.raw("(pop 1)")
			s.scope = s.scope[:0]
			if r == "unknown" {
				pc.flushOneByOne(in)
			}
			return
		}
		pc.fetchModelInto(in, &pc.altModel)
		s.raw("(pop 1)")
		s.scope = s.scope[:0]
		memo := map[*Term]uint64{}
		found := false
		for k := range pc.lits {
			l := &pc.lits[k]
			if pc.termHasUF(l.t) {
				continue // cannot be evaluated without the solver's interpretation
			}
			if ts.Eval(l.t, pc.altModel, memo, ufEval) != 0 {
				continue
			}
			// first literal the new model violates
			if l.kind == 0 || l.done {
				pc.events = append(pc.events, Event{Kind: "inconclusive", Label: "divergence", Msg: "engine: divergence model violates a closed literal"})
				return
			}
			var v uint64
			if l.kind == 1 {
				v = 1 - pc.trace[l.tpos]
				l.done = true
			} else {
				v = ts.Eval(l.ct, pc.altModel, memo, ufEval)
				l.excl = append(l.excl, v)
				if len(l.excl) > pc.exp.cfg.MaxConcretize {
					pc.events = append(pc.events, Event{Kind: "inconclusive", Label: "concretize", Msg: fmt.Sprintf("more than %d values while concretising", pc.exp.cfg.MaxConcretize)})
					l.done = true
				}
			}
			alt := append(append([]uint64(nil), pc.trace[:l.tpos]...), v)
			pc.exp.push(alt, pc.altModel)
			pc.altModel = nil
			found = true
			break
		}
		if !found {
			pc.events = append(pc.events, Event{Kind: "inconclusive", Label: "divergence", Msg: "engine: divergence model satisfies every literal"})
			return
		}
	}
}

// flushOneByOne is the fallback when the combined divergence query is too hard:
// every open decision is checked with its own (smaller) query.
func (pc *PathCtx) flushOneByOne(in *Interp) {
	ts := in.ts
	s := pc.solver
	for k := range pc.lits {
		l := &pc.lits[k]
		if l.kind == 0 || l.done {
			continue
		}
		for {
			var alt *Term
			if l.kind == 1 {
				alt = ts.BNot(l.t)
			} else {
				alt = ts.Bool(true)
				for _, v := range l.excl {
					alt = ts.BAnd(alt, ts.BNot(ts.Cmp(OpEq, l.ct, ts.Const(v, l.ct.w))))
				}
			}
			var names []string
			for j := 0; j < k; j++ {
				names = append(names, pc.em.Name(pc.lits[j].t))
			}
			names = append(names, pc.em.Name(alt))
			s.raw("(push 1)")
			s.scope = s.scope[:0]
			for _, n := range names {
				if n == "true" {
					continue
				}
				a := "(assert " + n + ")"
				s.scope = append(s.scope, a)
				s.raw(a)
			}
			r := s.CheckSat("")
			if r != "sat" {
				s.raw("(pop 1)")
				s.scope = s.scope[:0]
				if r == "unknown" {
					pc.events = append(pc.events, Event{Kind: "inconclusive", Label: "divergence", Msg: "solver unknown on the alternative of one decision (after the combined query was unknown): " + lastSolverError})
				}
				break
			}
			pc.fetchModelInto(in, &pc.altModel)
			s.raw("(pop 1)")
			s.scope = s.scope[:0]
			var v uint64
			if l.kind == 1 {
				v = 1 - pc.trace[l.tpos]
			} else {
				v = ts.Eval(l.ct, pc.altModel, map[*Term]uint64{}, ufEval)
				l.excl = append(l.excl, v)
			}
			alt2 := append(append([]uint64(nil), pc.trace[:l.tpos]...), v)
			pc.exp.push(alt2, pc.altModel)
			pc.altModel = nil
			if l.kind == 1 || len(l.excl) > pc.exp.cfg.MaxConcretize {
				break
			}
		}
		l.done = true
	}
}

func (pc *PathCtx) fetchModelInto(in *Interp, dst *map[string]uint64) {
	names := make([]string, 0, len(in.ts.vars))
	for _, v := range in.ts.vars {
		if _, ok := pc.em.names[v]; ok {
			names = append(names, v.name)
		}
	}
	m, err := pc.solver.GetValues(names)
	if err != nil {
		m = map[string]uint64{}
		pc.events = append(pc.events, Event{Kind: "inconclusive", Label: "divergence", Msg: "get-value failed: " + err.Error()})
	}
	*dst = m
}

func (pc *PathCtx) note(in *Interp, kind, label, msg string) {
	pc.events = append(pc.events, Event{Kind: kind, Label: label, Msg: msg, Origin: in.originFn()})
}

func (pc *PathCtx) noteWrite(in *Interp, o *Object) {
	if pc.writes == nil {
		pc.writes = map[int]string{}
	}
	if _, ok := pc.writes[o.id]; !ok {
		pc.writes[o.id] = o.name
	}
}

func (pc *PathCtx) noteGlobalWrite(in *Interp, o *Object) {
	pc.globalWrites = append(pc.globalWrites, o.name+" @ "+in.curFn())
}

func (pc *PathCtx) newInput(in *Interp, w uint16) *Term {
	name := fmt.Sprintf("in%d", len(pc.inputs))
	t := in.ts.Var(name, w)
	pc.inputs = append(pc.inputs, inputVar{t, w})
	return t
}

// ---------------- Explorer ----------------

type Config struct {
	Workers       int
	MaxDecisions  int
	MaxConcretize int
	MaxSteps      int64
	MaxPaths      int
	SolverBin     string
	SolverArgs    []string
	TimeoutMs     int
	Params        map[string]int
	Picks         map[string]int
	TrackWrites   bool
	TraceSMT      string
	Deadline      time.Time
	Tally         bool
	CrossCheck    int
	MaxViol       int
	CapPrefixes   []string
	RetryMs       int
}

type workItem struct {
	prefix []uint64
	model  map[string]uint64
}

type Explorer struct {
	cfg     Config
	prog    *Program
	entry   *ssa.Function
	mu      sync.Mutex
	cond    *sync.Cond
	work    []workItem
	active  int
	results []*PathResult
	nextID  int
	stats   []*Stats
	stopped bool
	funcs   map[string]int64
	pickN   map[string]int
	decKinds map[string]int
	nViol    int
	cross    map[string]int
}

func (e *Explorer) tally(what, fn string) {
	if i := strings.Index(what, ":C"); i > 0 && strings.HasPrefix(what, "assert") {
		// keep assert labels
	}
	e.mu.Lock()
	if e.decKinds == nil {
		e.decKinds = map[string]int{}
	}
	e.decKinds[what+" @ "+fn]++
	e.mu.Unlock()
}

// countsTowardCap: a violating path class counts toward -maxviol only if it is a
// panic or its assertion label belongs to the property being checked.
func (e *Explorer) countsTowardCap(res *PathResult) bool {
	if res.Status == "panic" {
		return true
	}
	if res.Status != "violation" {
		return false
	}
	if len(e.cfg.CapPrefixes) == 0 {
		return true
	}
	for _, ev := range res.Events {
		if ev.Kind != "assert" {
			continue
		}
		for _, p := range e.cfg.CapPrefixes {
			if strings.HasPrefix(ev.Label, p) {
				return true
			}
		}
	}
	return false
}

func (e *Explorer) noteCross(v string) {
	e.mu.Lock()
	if e.cross == nil {
		e.cross = map[string]int{}
	}
	e.cross[v]++
	e.mu.Unlock()
}

func (e *Explorer) push(prefix []uint64, model map[string]uint64) {
	e.mu.Lock()
	e.work = append(e.work, workItem{prefix, model})
	e.mu.Unlock()
	e.cond.Signal()
}

func (e *Explorer) Run() {
	e.cond = sync.NewCond(&e.mu)
	e.work = []workItem{{}}
	e.funcs = map[string]int64{}
	var wg sync.WaitGroup
	e.stats = make([]*Stats, e.cfg.Workers)
	for w := 0; w < e.cfg.Workers; w++ {
		e.stats[w] = &Stats{}
		wg.Add(1)
		go func(w int) {
			defer wg.Done()
			e.worker(w)
		}(w)
	}
	wg.Wait()
}

func (e *Explorer) worker(w int) {
	solver, err := NewSolver(e.cfg.SolverBin, e.cfg.SolverArgs, e.cfg.TimeoutMs, e.stats[w])
	if err != nil {
		panic(err)
	}
	defer solver.Close()
	solver.retryMs = e.cfg.RetryMs
	for {
		e.mu.Lock()
		for len(e.work) == 0 && e.active > 0 && !e.stopped {
			e.cond.Wait()
		}
		if e.stopped || (len(e.work) == 0 && e.active == 0) {
			e.mu.Unlock()
			e.cond.Broadcast()
			return
		}
		// DFS: take the most recent
		item := e.work[len(e.work)-1]
		e.work = e.work[:len(e.work)-1]
		prefix := item.prefix
		e.active++
		id := e.nextID
		e.nextID++
		if e.cfg.MaxPaths > 0 && id >= e.cfg.MaxPaths {
			e.stopped = true
			e.active--
			e.mu.Unlock()
			e.cond.Broadcast()
			return
		}
		if !e.cfg.Deadline.IsZero() && time.Now().After(e.cfg.Deadline) {
			e.stopped = true
			e.active--
			e.mu.Unlock()
			e.cond.Broadcast()
			return
		}
		e.mu.Unlock()
		if solver.dead {
			solver.Close()
			solver.start()
		}
		res := e.runPath(solver, prefix, item.model, id)
		e.mu.Lock()
		e.results = append(e.results, res)
		if e.countsTowardCap(res) {
			e.nViol++
			if e.cfg.MaxViol > 0 && e.nViol >= e.cfg.MaxViol {
				// enough counterexamples: stop exploring (the run is reported as incomplete)
				e.stopped = true
			}
		}
		for k, v := range res.Funcs {
			e.funcs[k] += v
		}
		e.active--
		e.mu.Unlock()
		e.cond.Broadcast()
	}
}

func (e *Explorer) runPath(solver *Solver, prefix []uint64, model map[string]uint64, id int) (res *PathResult) {
	ts := NewTermStore()
	heap := &Heap{nextID: e.prog.baseHeap.nextID + 1}
	in := &Interp{prog: e.prog, ts: ts, heap: heap, maxSt: e.cfg.MaxSteps}
	solver.Push()
	pc := &PathCtx{exp: e, solver: solver, em: NewEmitter(solver, ts), prefix: prefix, covers: map[string]bool{},
		picks: map[string]int{}, known: map[*Term]uint64{}, params: e.cfg.Params, memoUF: map[*Term]bool{}, trackWrites: e.cfg.TrackWrites, funcs: map[string]int64{}, fcount: map[*ssa.Function]int64{}}
	if model != nil {
		pc.model = model
		pc.modelOK = true
	}
	pc.evalMemo = map[*Term]uint64{}
	pc.id = id
	in.ex = pc
	res = &PathResult{ID: id, Prefix: prefix}
	defer func() {
		r := recover()
		status := "done"
		if r != nil {
			pe, ok := r.(pathEnd)
			if !ok {
				// internal error of the engine: report as unsupported with the message
				pe = pathEnd{"unsupported", fmt.Sprintf("engine error: %v @ %s", r, in.where())}
			}
			status = pe.kind
			switch pe.kind {
			case "panic":
				lab := pe.msg
				if i := strings.Index(lab, " @ "); i > 0 {
					lab = lab[:i]
				}
				pc.events = append(pc.events, Event{Kind: "panic", Label: normLabel(lab), Origin: in.originFn(), Msg: pe.msg})
			case "unsupported", "budget", "inconclusive":
				pc.events = append(pc.events, Event{Kind: pe.kind, Label: pe.kind, Origin: in.originFn(), Msg: pe.msg})
			case "assume", "infeasible", "done", "violation":
			}
			if pe.kind == "assume" && pe.msg != "" {
				res.Notes = map[string]string{"assume": pe.msg}
			}
		}
		res.Status = status
		res.Trace = pc.trace
		res.Events = pc.events
		res.Steps = in.steps
		res.Decisions = pc.nDec
		res.Picks = pc.picks
		for f, c := range pc.fcount {
			pc.funcs[f.String()] += c
		}
		res.Funcs = pc.funcs
		for c := range pc.covers {
			res.Covers = append(res.Covers, c)
		}
		sort.Strings(res.Covers)
		// final model for inputs/observations
		func() {
			defer func() {
				if r2 := recover(); r2 != nil {
					if res.Status == "done" {
						res.Status = "inconclusive"
						res.Events = append(res.Events, Event{Kind: "inconclusive", Label: "final-model", Msg: fmt.Sprint(r2)})
					}
				}
			}()
			if status == "infeasible" {
				return
			}
			if !solver.dead {
				pc.ensureModel(in)
				pc.flush(in)
				res.Events = pc.events
				for _, iv := range pc.inputs {
					res.Inputs = append(res.Inputs, pc.model[iv.t.name]&mask16(iv.w))
					res.InputW = append(res.InputW, iv.w)
				}
				for _, o := range pc.obs {
					var sb strings.Builder
					for _, v := range o.vals {
						var x uint64
						if t, ok := v.x.(*Term); ok {
							x = pc.evalModel(in, t)
						} else {
							x = v.c
						}
						if o.w == 8 {
							fmt.Fprintf(&sb, "%02x", x&0xff)
						} else {
							fmt.Fprintf(&sb, "%x", x)
						}
					}
					res.Obs = append(res.Obs, Obs{o.label, sb.String()})
				}
			}
		}()
		if len(pc.globalWrites) > 0 {
			if res.Notes == nil {
				res.Notes = map[string]string{}
			}
			res.Notes["global_writes"] = strings.Join(pc.globalWrites, "; ")
		}
		if !solver.dead {
			solver.Pop()
		}
	}()
	in.call(e.entry, nil, nil)
	return
}

func normLabel(s string) string {
	// strip numbers so that labels are stable across inputs
	var sb strings.Builder
	for _, ch := range s {
		if ch >= '0' && ch <= '9' {
			continue
		}
		sb.WriteRune(ch)
	}
	return strings.TrimSpace(sb.String())
}
