package main

// Path exploration by re-execution with decision prefixes.

import (
	"fmt"
	"hash/crc32"
	"sort"
	"strings"
	"sync"
	"time"

	"golang.org/x/tools/go/ssa"
)

type Decision struct {
	V    uint64 `json:"v"`
	Kind string `json:"k,omitempty"` // "b" branch, "c" concretize
}

type Event struct {
	Kind   string `json:"kind"` // assert | panic | unsupported | inconclusive | budget
	Label  string `json:"label"`
	Origin string `json:"origin,omitempty"`
	Msg    string `json:"msg,omitempty"`
}

type Obs struct {
	Label string `json:"label"`
	Val   string `json:"val"`
}

type PathResult struct {
	ID        int               `json:"id"`
	Prefix    []uint64          `json:"-"`
	Trace     []uint64          `json:"trace"`
	Status    string            `json:"status"` // done | assume | panic | violation | unsupported | budget | inconclusive
	Events    []Event           `json:"events,omitempty"`
	Covers    []string          `json:"covers,omitempty"`
	Inputs    []uint64          `json:"inputs"`
	InputW    []uint16          `json:"input_w"`
	Picks     map[string]int    `json:"picks,omitempty"`
	Obs       []Obs             `json:"obs,omitempty"`
	Steps     int64             `json:"steps"`
	Decisions int               `json:"decisions"`
	Funcs     map[string]int64  `json:"-"`
	Notes     map[string]string `json:"notes,omitempty"`
}

type inputVar struct {
	t *Term
	w uint16
}

// PathCtx is the per-path exploration context.
type PathCtx struct {
	exp      *Explorer
	solver   *Solver
	em       *Emitter
	prefix   []uint64
	pos      int
	trace    []uint64
	pc       []*Term
	model    map[string]uint64
	modelOK  bool
	inputs   []inputVar
	events   []Event
	covers   map[string]bool
	obs      []obsRec
	picks    map[string]int
	params   map[string]int
	hasUF    map[*Term]bool
	memoUF   map[*Term]bool
	trackWrites bool
	writes   map[int]string
	globalWrites []string
	nDec     int
	nNew     int
	funcs    map[string]int64
	seedVals map[string]uint64
	originTag string
}

type obsRec struct {
	label string
	terms []*Term // each a byte or word
	vals  []Val
	w     uint16
}

func (pc *PathCtx) termHasUF(t *Term) bool {
	if t == nil {
		return false
	}
	if v, ok := pc.memoUF[t]; ok {
		return v
	}
	r := t.op == OpUF || pc.termHasUF(t.a) || pc.termHasUF(t.b) || pc.termHasUF(t.c)
	pc.memoUF[t] = r
	return r
}

func (pc *PathCtx) assertTerm(t *Term) {
	if t.op == OpBool {
		if t.k == 1 {
			return
		}
	}
	pc.pc = append(pc.pc, t)
	nm := pc.em.Name(t)
	pc.solver.Emit("(assert " + nm + ")")
}

func ufEval(name string, a, b uint64) uint64 {
	switch name {
	case "crcF":
		return uint64(crc32.Update(uint32(a), crc32.IEEETable, []byte{byte(b)}))
	case "adlerF":
		s1, s2 := uint32(a)&0xffff, uint32(a)>>16
		s1 = (s1 + uint32(byte(b))) % 65521
		s2 = (s2 + s1) % 65521
		return uint64(s2<<16 | s1)
	}
	return 0
}

func (pc *PathCtx) evalModel(in *Interp, t *Term) uint64 {
	return in.ts.Eval(t, pc.model, map[*Term]uint64{}, ufEval)
}

// ensureModel obtains a model of the current path condition.
func (pc *PathCtx) ensureModel(in *Interp) {
	if pc.modelOK {
		return
	}
	res := pc.solver.CheckSat("")
	if res != "sat" {
		if res == "unsat" {
			in.end("infeasible", "path condition unsat when a model was requested")
		}
		in.end("inconclusive", "solver %s on path condition (%s)", res, lastSolverError)
	}
	pc.fetchModel(in)
}

func (pc *PathCtx) fetchModel(in *Interp) {
	names := make([]string, 0, len(in.ts.vars))
	for _, v := range in.ts.vars {
		if _, ok := pc.em.names[v]; ok {
			names = append(names, v.name)
		}
	}
	m, err := pc.solver.GetValues(names)
	if err != nil {
		in.end("inconclusive", "get-value failed: %v", err)
	}
	pc.model = m
	pc.modelOK = true
}

// decide resolves a symbolic branch.
func (pc *PathCtx) decide(in *Interp, t *Term, what string) bool {
	if t.op == OpBool {
		return t.k == 1
	}
	pc.nDec++
	if pc.nDec > pc.exp.cfg.MaxDecisions {
		in.end("budget", "unwinding bound: more than %d symbolic decisions on one path (%s)", pc.exp.cfg.MaxDecisions, in.where())
	}
	if pc.pos < len(pc.prefix) {
		d := pc.prefix[pc.pos]
		pc.pos++
		pc.trace = append(pc.trace, d)
		if d == 1 {
			pc.assertTerm(t)
		} else {
			pc.assertTerm(in.ts.BNot(t))
		}
		pc.modelOK = false
		return d == 1
	}
	pc.nNew++
	// new decision point
	var side bool
	known := false
	if !pc.termHasUF(t) {
		pc.ensureModel(in)
		side = pc.evalModel(in, t) != 0
		known = true
	} else {
		// UF present: query the true side explicitly
		r := pc.solver.CheckSat(pc.em.Name(t))
		if r == "sat" {
			pc.solver.PopExtra()
			side = true
			known = true
		} else if r == "unknown" {
			pc.note(in, "inconclusive", what, "solver unknown on branch (true side)")
		}
		if !known {
			side = false
			r2 := pc.solver.CheckSat(pc.em.Name(in.ts.BNot(t)))
			if r2 == "sat" {
				pc.solver.PopExtra()
			} else if r2 == "unsat" {
				in.end("infeasible", "both sides infeasible")
			} else {
				in.end("inconclusive", "solver unknown on both sides of a branch")
			}
			pc.trace = append(pc.trace, 0)
			pc.assertTerm(in.ts.BNot(t))
			pc.modelOK = false
			return false
		}
	}
	// check the other side
	var other *Term
	if side {
		other = in.ts.BNot(t)
	} else {
		other = t
	}
	r := pc.solver.CheckSat(pc.em.Name(other))
	switch r {
	case "sat":
		pc.solver.PopExtra()
		alt := append(append([]uint64(nil), pc.trace...), b2u(!side))
		pc.exp.push(alt)
	case "unknown":
		pc.note(in, "inconclusive", what, "solver unknown on branch alternative: "+lastSolverError)
	}
	pc.trace = append(pc.trace, b2u(side))
	pc.assertTerm(ifThen(side, t, in.ts.BNot(t)))
	if pc.termHasUF(t) {
		pc.modelOK = false
	}
	return side
}

func ifThen(c bool, a, b *Term) *Term {
	if c {
		return a
	}
	return b
}

func b2u(b bool) uint64 {
	if b {
		return 1
	}
	return 0
}

// concretize case-splits on the value of t.
func (pc *PathCtx) concretize(in *Interp, t *Term, what string) uint64 {
	if t.op == OpConst {
		return t.k
	}
	pc.nDec++
	if pc.nDec > pc.exp.cfg.MaxDecisions {
		in.end("budget", "unwinding bound: more than %d symbolic decisions on one path (%s)", pc.exp.cfg.MaxDecisions, in.where())
	}
	if pc.pos < len(pc.prefix) {
		d := pc.prefix[pc.pos]
		pc.pos++
		pc.trace = append(pc.trace, d)
		pc.assertTerm(in.ts.Cmp(OpEq, t, in.ts.Const(d, t.w)))
		pc.modelOK = false
		return d
	}
	pc.nNew++
	if pc.termHasUF(t) {
		in.end("unsupported", "concretisation of a term over uninterpreted functions (%s)", what)
	}
	pc.ensureModel(in)
	v0 := pc.evalModel(in, t)
	// enumerate alternatives
	tn := pc.em.Name(t)
	seen := []uint64{v0}
	pc.solver.raw("(push 1)")
	pc.solver.raw(fmt.Sprintf("(assert (not (= %s %s)))", tn, constStr(v0, t.w)))
	capN := pc.exp.cfg.MaxConcretize
	for {
		r := pc.solver.CheckSat("")
		if r == "unsat" {
			break
		}
		if r != "sat" {
			pc.note(in, "inconclusive", what, "solver unknown while enumerating values")
			break
		}
		m, err := pc.solver.GetValues([]string{tn})
		if err != nil {
			pc.note(in, "inconclusive", what, "get-value failed while enumerating")
			break
		}
		v := m[tn]
		seen = append(seen, v)
		alt := append(append([]uint64(nil), pc.trace...), v)
		pc.exp.push(alt)
		if len(seen) > capN {
			pc.note(in, "inconclusive", what, fmt.Sprintf("more than %d values while concretising (%s) at %s", capN, what, in.where()))
			break
		}
		pc.solver.raw(fmt.Sprintf("(assert (not (= %s %s)))", tn, constStr(v, t.w)))
	}
	pc.solver.raw("(pop 1)")
	pc.trace = append(pc.trace, v0)
	pc.assertTerm(in.ts.Cmp(OpEq, t, in.ts.Const(v0, t.w)))
	return v0
}

func (pc *PathCtx) note(in *Interp, kind, label, msg string) {
	pc.events = append(pc.events, Event{Kind: kind, Label: label, Msg: msg, Origin: in.originFn()})
}

func (pc *PathCtx) noteWrite(in *Interp, o *Object) {
	if pc.writes == nil {
		pc.writes = map[int]string{}
	}
	if _, ok := pc.writes[o.id]; !ok {
		pc.writes[o.id] = o.name
	}
}

func (pc *PathCtx) noteGlobalWrite(in *Interp, o *Object) {
	pc.globalWrites = append(pc.globalWrites, o.name+" @ "+in.curFn())
}

func (pc *PathCtx) newInput(in *Interp, w uint16) *Term {
	name := fmt.Sprintf("in%d", len(pc.inputs))
	t := in.ts.Var(name, w)
	pc.inputs = append(pc.inputs, inputVar{t, w})
	return t
}

// ---------------- Explorer ----------------

type Config struct {
	Workers       int
	MaxDecisions  int
	MaxConcretize int
	MaxSteps      int64
	MaxPaths      int
	SolverBin     string
	SolverArgs    []string
	TimeoutMs     int
	Params        map[string]int
	Picks         map[string]int
	TrackWrites   bool
	TraceSMT      string
	Deadline      time.Time
}

type Explorer struct {
	cfg     Config
	prog    *Program
	entry   *ssa.Function
	mu      sync.Mutex
	cond    *sync.Cond
	work    [][]uint64
	active  int
	results []*PathResult
	nextID  int
	stats   []*Stats
	stopped bool
	funcs   map[string]int64
	pickN   map[string]int
}

func (e *Explorer) push(prefix []uint64) {
	e.mu.Lock()
	e.work = append(e.work, prefix)
	e.mu.Unlock()
	e.cond.Signal()
}

func (e *Explorer) Run() {
	e.cond = sync.NewCond(&e.mu)
	e.work = [][]uint64{nil}
	e.funcs = map[string]int64{}
	var wg sync.WaitGroup
	e.stats = make([]*Stats, e.cfg.Workers)
	for w := 0; w < e.cfg.Workers; w++ {
		e.stats[w] = &Stats{}
		wg.Add(1)
		go func(w int) {
			defer wg.Done()
			e.worker(w)
		}(w)
	}
	wg.Wait()
}

func (e *Explorer) worker(w int) {
	solver, err := NewSolver(e.cfg.SolverBin, e.cfg.SolverArgs, e.cfg.TimeoutMs, e.stats[w])
	if err != nil {
		panic(err)
	}
	defer solver.Close()
	for {
		e.mu.Lock()
		for len(e.work) == 0 && e.active > 0 && !e.stopped {
			e.cond.Wait()
		}
		if e.stopped || (len(e.work) == 0 && e.active == 0) {
			e.mu.Unlock()
			e.cond.Broadcast()
			return
		}
		// DFS: take the most recent
		prefix := e.work[len(e.work)-1]
		e.work = e.work[:len(e.work)-1]
		e.active++
		id := e.nextID
		e.nextID++
		if e.cfg.MaxPaths > 0 && id >= e.cfg.MaxPaths {
			e.stopped = true
			e.active--
			e.mu.Unlock()
			e.cond.Broadcast()
			return
		}
		if !e.cfg.Deadline.IsZero() && time.Now().After(e.cfg.Deadline) {
			e.stopped = true
			e.active--
			e.mu.Unlock()
			e.cond.Broadcast()
			return
		}
		e.mu.Unlock()
		if solver.dead {
			solver.Close()
			solver.start()
		}
		res := e.runPath(solver, prefix, id)
		e.mu.Lock()
		e.results = append(e.results, res)
		for k, v := range res.Funcs {
			e.funcs[k] += v
		}
		e.active--
		e.mu.Unlock()
		e.cond.Broadcast()
	}
}

func (e *Explorer) runPath(solver *Solver, prefix []uint64, id int) (res *PathResult) {
	ts := NewTermStore()
	heap := &Heap{nextID: e.prog.baseHeap.nextID + 1}
	in := &Interp{prog: e.prog, ts: ts, heap: heap, maxSt: e.cfg.MaxSteps}
	solver.Push()
	pc := &PathCtx{exp: e, solver: solver, em: NewEmitter(solver, ts), prefix: prefix, covers: map[string]bool{},
		picks: map[string]int{}, params: e.cfg.Params, memoUF: map[*Term]bool{}, trackWrites: e.cfg.TrackWrites, funcs: map[string]int64{}}
	in.ex = pc
	res = &PathResult{ID: id, Prefix: prefix}
	defer func() {
		r := recover()
		status := "done"
		if r != nil {
			pe, ok := r.(pathEnd)
			if !ok {
				// internal error of the engine: report as unsupported with the message
				pe = pathEnd{"unsupported", fmt.Sprintf("engine error: %v @ %s", r, in.where())}
			}
			status = pe.kind
			switch pe.kind {
			case "panic":
				lab := pe.msg
				if i := strings.Index(lab, " @ "); i > 0 {
					lab = lab[:i]
				}
				pc.events = append(pc.events, Event{Kind: "panic", Label: normLabel(lab), Origin: in.originFn(), Msg: pe.msg})
			case "unsupported", "budget", "inconclusive":
				pc.events = append(pc.events, Event{Kind: pe.kind, Label: pe.kind, Origin: in.originFn(), Msg: pe.msg})
			case "assume", "infeasible", "done", "violation":
			}
			if pe.kind == "assume" && pe.msg != "" {
				res.Notes = map[string]string{"assume": pe.msg}
			}
		}
		res.Status = status
		res.Trace = pc.trace
		res.Events = pc.events
		res.Steps = in.steps
		res.Decisions = pc.nDec
		res.Picks = pc.picks
		res.Funcs = pc.funcs
		for c := range pc.covers {
			res.Covers = append(res.Covers, c)
		}
		sort.Strings(res.Covers)
		// final model for inputs/observations
		func() {
			defer func() {
				if r2 := recover(); r2 != nil {
					if res.Status == "done" {
						res.Status = "inconclusive"
						res.Events = append(res.Events, Event{Kind: "inconclusive", Label: "final-model", Msg: fmt.Sprint(r2)})
					}
				}
			}()
			if status == "infeasible" {
				return
			}
			if !solver.dead {
				pc.ensureModel(in)
				for _, iv := range pc.inputs {
					res.Inputs = append(res.Inputs, pc.model[iv.t.name]&mask16(iv.w))
					res.InputW = append(res.InputW, iv.w)
				}
				for _, o := range pc.obs {
					var sb strings.Builder
					for _, v := range o.vals {
						var x uint64
						if t, ok := v.x.(*Term); ok {
							x = pc.evalModel(in, t)
						} else {
							x = v.c
						}
						if o.w == 8 {
							fmt.Fprintf(&sb, "%02x", x&0xff)
						} else {
							fmt.Fprintf(&sb, "%x", x)
						}
					}
					res.Obs = append(res.Obs, Obs{o.label, sb.String()})
				}
			}
		}()
		if len(pc.globalWrites) > 0 {
			if res.Notes == nil {
				res.Notes = map[string]string{}
			}
			res.Notes["global_writes"] = strings.Join(pc.globalWrites, "; ")
		}
		if !solver.dead {
			solver.Pop()
		}
	}()
	in.call(e.entry, nil, nil)
	return
}

func normLabel(s string) string {
	// strip numbers so that labels are stable across inputs
	var sb strings.Builder
	for _, ch := range s {
		if ch >= '0' && ch <= '9' {
			continue
		}
		sb.WriteRune(ch)
	}
	return strings.TrimSpace(sb.String())
}
