package main

import (
	"fmt"
	"os"
)

func (p *Program) dbgGlobals() {
	if os.Getenv("GOSYM_DBG") == "" {
		return
	}
	for pkg, done := range p.initDone {
		fmt.Fprintln(os.Stderr, "initDone", pkg.Pkg.Path(), done)
	}
	for g, o := range p.globals {
		if g.Pkg.Pkg.Path() == "io" {
			fmt.Fprintln(os.Stderr, "global", g.String(), o.nfl, o.ptrs)
		}
	}
}
