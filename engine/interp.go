package main

// SSA interpreter core: program loading products, frames, instruction dispatch.

import (
	"fmt"
	"os"
	"go/constant"
	"go/token"
	"go/types"
	"strings"
	"sync"

	"golang.org/x/tools/go/ssa"
)

type Program struct {
	prog      *ssa.Program
	pkgs      map[string]*ssa.Package
	globals   map[*ssa.Global]*Object
	gmu       sync.Mutex
	fnInfo    sync.Map // *ssa.Function -> *FnInfo
	offCache  map[*types.Struct][]int64
	offMu     sync.Mutex
	strConsts sync.Map // string -> *Object
	initDone  map[*ssa.Package]bool
	asmMu     sync.Mutex
	asmFuncs  map[string]map[string]*asmFunc
	asmErr    string
	repo      string
	initAllow map[string]bool
	baseHeap  *Heap
	frozen    bool
}

type opnd struct {
	reg int // >=0 register
	cv  Val // constant / global / function when reg < 0
}

type cinstr struct {
	ins ssa.Instruction
	ops []opnd
	dst int
	k1  int64 // precomputed: field offset / element size / type size
}

type FnInfo struct {
	nregs  int
	blocks [][]cinstr
	params []int
	free   []int
}

type deferred struct {
	fn   Val
	args []Val
	call *ssa.CallCommon
}

type Frame struct {
	fn     *ssa.Function
	info   *FnInfo
	regs   []Val
	defers []deferred
}

// pathEnd is thrown (panic) to terminate the current path.
type pathEnd struct {
	kind string // done | assume | panic | unsupported | budget | infeasible | inconclusive
	msg  string
}

type Interp struct {
	prog   *Program
	ts     *TermStore
	heap   *Heap
	ex     *PathCtx
	steps  int64
	maxSt  int64
	depth  int
	stack  []*ssa.Function
	initMode bool
	initHook func(fn *ssa.Function) bool
	arena  []Val
	sp     int
	hookBypass bool
}

func (in *Interp) end(kind, format string, a ...any) {
	panic(pathEnd{kind, fmt.Sprintf(format, a...)})
}

func (in *Interp) where() string {
	var parts []string
	for i := len(in.stack) - 1; i >= 0 && len(parts) < 6; i-- {
		parts = append(parts, in.stack[i].String())
	}
	return strings.Join(parts, " <- ")
}

func (in *Interp) curFn() string {
	if len(in.stack) == 0 {
		return "?"
	}
	return in.stack[len(in.stack)-1].String()
}

// fastgoFn returns the innermost function on the stack that belongs to fastgo
// (not a harness function), for origin signatures.
func (in *Interp) originFn() string {
	for i := len(in.stack) - 1; i >= 0; i-- {
		f := in.stack[i]
		if f.Pkg != nil && strings.HasPrefix(f.Pkg.Pkg.Path(), "github.com/intel/fastgo") && !strings.HasPrefix(f.Name(), "Verif") && !strings.HasPrefix(f.Name(), "vh") && !strings.Contains(f.String(), "verifrt") {
			name := f.String()
			if f.Parent() != nil {
				name = f.Parent().String()
			}
			return name
		}
	}
	return in.curFn()
}

func (p *Program) info(fn *ssa.Function) *FnInfo {
	if v, ok := p.fnInfo.Load(fn); ok {
		return v.(*FnInfo)
	}
	fi := &FnInfo{}
	reg := map[ssa.Value]int{}
	n := 0
	for _, pa := range fn.Params {
		reg[pa] = n
		fi.params = append(fi.params, n)
		n++
	}
	for _, fv := range fn.FreeVars {
		reg[fv] = n
		fi.free = append(fi.free, n)
		n++
	}
	for _, b := range fn.Blocks {
		for _, ins := range b.Instrs {
			if v, ok := ins.(ssa.Value); ok {
				reg[v] = n
				n++
			}
		}
	}
	fi.nregs = n
	fi.blocks = make([][]cinstr, len(fn.Blocks))
	for bi, b := range fn.Blocks {
		cis := make([]cinstr, len(b.Instrs))
		for ii, ins := range b.Instrs {
			ci := cinstr{ins: ins, dst: -1}
			if v, ok := ins.(ssa.Value); ok {
				ci.dst = reg[v]
			}
			var rands []*ssa.Value
			rands = ins.Operands(rands)
			ci.ops = make([]opnd, len(rands))
			for k, r := range rands {
				if *r == nil {
					ci.ops[k] = opnd{reg: -2}
					continue
				}
				if idx, ok := reg[*r]; ok {
					ci.ops[k] = opnd{reg: idx}
				} else {
					ci.ops[k] = opnd{reg: -1, cv: p.staticVal(*r)}
				}
			}
			switch x := ins.(type) {
			case *ssa.FieldAddr:
				st := x.X.Type().Underlying().(*types.Pointer).Elem().Underlying().(*types.Struct)
				ci.k1 = p.fieldOffLocked(st, x.Field)
			case *ssa.Field:
				st := x.X.Type().Underlying().(*types.Struct)
				ci.k1 = p.fieldOffLocked(st, x.Field)
			}
			cis[ii] = ci
		}
		fi.blocks[bi] = cis
	}
	p.fnInfo.Store(fn, fi)
	return fi
}

// staticVal evaluates constants, globals, functions.
func (p *Program) staticVal(v ssa.Value) Val {
	switch x := v.(type) {
	case *ssa.Const:
		return p.constVal(x)
	case *ssa.Global:
		return Val{x: &Pointer{obj: p.globalObj(x)}}
	case *ssa.Function:
		return Val{x: x}
	case *ssa.Builtin:
		return Val{x: x}
	}
	return Val{x: &Poison{fmt.Sprintf("static value %T", v)}}
}

func (p *Program) globalObj(g *ssa.Global) *Object {
	p.gmu.Lock()
	defer p.gmu.Unlock()
	if o, ok := p.globals[g]; ok {
		return o
	}
	et := g.Type().(*types.Pointer).Elem()
	o := p.baseHeap.NewObject(sizeof(et), "global "+g.String())
	o.pkg = g.Pkg
	o.shared = p.frozen
	p.globals[g] = o
	return o
}

func (p *Program) strObj(s string) *Object {
	if v, ok := p.strConsts.Load(s); ok {
		return v.(*Object)
	}
	o := &Object{id: -1, size: int64(len(s)), b: []byte(s), name: "strconst", ro: true, shared: false}
	act, _ := p.strConsts.LoadOrStore(s, o)
	return act.(*Object)
}

func (p *Program) constVal(c *ssa.Const) Val {
	if c.Value == nil {
		return Val{} // nil / zero value
	}
	t := c.Type()
	switch kindOf(t) {
	case kString:
		s := constant.StringVal(c.Value)
		if len(s) == 0 {
			return Val{}
		}
		return Val{x: &SliceV{obj: p.strObj(s), off: 0, len: int64(len(s)), cap: int64(len(s))}}
	case kFloat:
		return Val{x: &Poison{"float constant"}}
	}
	switch c.Value.Kind() {
	case constant.Bool:
		if constant.BoolVal(c.Value) {
			return Val{c: 1}
		}
		return Val{c: 0}
	case constant.Int:
		if i, ok := constant.Int64Val(c.Value); ok {
			return Val{c: uint64(i) & mask(bitsOf(t))}
		}
		if u, ok := constant.Uint64Val(c.Value); ok {
			return Val{c: u & mask(bitsOf(t))}
		}
	case constant.Float:
		// integer-valued float constant converted to int type
		if i, ok := constant.Int64Val(constant.ToInt(c.Value)); ok {
			return Val{c: uint64(i) & mask(bitsOf(t))}
		}
	}
	return Val{x: &Poison{"constant " + c.String()}}
}

func (in *Interp) get(fr *Frame, o opnd) Val {
	if o.reg >= 0 {
		return fr.regs[o.reg]
	}
	return o.cv
}

// call runs a function to completion and returns its result.
func (in *Interp) call(fn *ssa.Function, args []Val, free []Val) Val {
	if in.initHook != nil && fn.Synthetic == "package initializer" && !in.hookBypass {
		in.initHook(fn)
		return Val{}
	}
	in.hookBypass = false
	if r, ok := in.intrinsic(fn, args); ok {
		return r
	}
	if fn.Blocks == nil {
		if !in.initMode {
			if af := in.prog.asmFor(fn); af != nil {
				in.depth++
				in.stack = append(in.stack, fn)
				r := in.runAsm(fn, af, args)
				in.stack = in.stack[:len(in.stack)-1]
				in.depth--
				return r
			}
		}
		if in.initMode {
			return Val{x: &Poison{"external function " + fn.String()}}
		}
		in.end("unsupported", "external function without model: %s (at %s)", fn.String(), in.where())
	}
	if in.depth > 200 {
		in.end("unsupported", "call depth exceeded at %s", fn.String())
	}
	info := in.prog.info(fn)
	// register file: LIFO arena
	need := info.nregs
	if in.sp+need > len(in.arena) {
		na := make([]Val, 2*len(in.arena)+need+4096)
		// old frames keep their slices into the old arena; only new frames use the new one
		in.arena = na
		in.sp = 0
	}
	arenaAtEntry := in.arena
	spAtEntry := in.sp
	regs := in.arena[in.sp : in.sp+need : in.sp+need]
	for i := range regs {
		regs[i] = Val{}
	}
	in.sp += need
	fr := &Frame{fn: fn, info: info, regs: regs}
	for i, r := range info.params {
		if i < len(args) {
			fr.regs[r] = args[i]
		}
	}
	for i, r := range info.free {
		if i < len(free) {
			fr.regs[r] = free[i]
		}
	}
	in.depth++
	in.stack = append(in.stack, fn)
	if traceCalls && !in.initMode {
		dbgInterp = in
		fmt.Fprintf(os.Stderr, "%*scall %s %v\n", in.depth, "", fn.String(), dbgVals(args))
	}
	res := in.run(fr)
	if &in.arena[0] == &arenaAtEntry[0] {
		in.sp = spAtEntry
	}
	if traceCalls && !in.initMode {
		fmt.Fprintf(os.Stderr, "%*sret  %s -> %v\n", in.depth, "", fn.String(), dbgVals([]Val{res}))
	}
	in.stack = in.stack[:len(in.stack)-1]
	in.depth--
	return res
}

func (in *Interp) run(fr *Frame) Val {
	bi := 0
	prev := -1
	for {
		blk := fr.fn.Blocks[bi]
		cis := fr.info.blocks[bi]
		// phis first, evaluated simultaneously
		nphi := 0
		for nphi < len(cis) {
			if _, ok := cis[nphi].ins.(*ssa.Phi); !ok {
				break
			}
			nphi++
		}
		if nphi > 0 {
			var edge int
			for k, p := range blk.Preds {
				if p.Index == prev {
					edge = k
					break
				}
			}
			if nphi == 1 {
				fr.regs[cis[0].dst] = in.get(fr, cis[0].ops[edge])
			} else {
				tmp := make([]Val, nphi)
				for k := 0; k < nphi; k++ {
					tmp[k] = in.get(fr, cis[k].ops[edge])
				}
				for k := 0; k < nphi; k++ {
					fr.regs[cis[k].dst] = tmp[k]
				}
			}
		}
		for ii := nphi; ii < len(cis); ii++ {
			ci := &cis[ii]
			in.steps++
			if in.steps > in.maxSt {
				in.end("budget", "instruction budget exceeded (%d) in %s", in.maxSt, in.where())
			}
			switch x := ci.ins.(type) {
			case *ssa.If:
				c := in.get(fr, ci.ops[0])
				var taken bool
				if c.x == nil {
					taken = c.c != 0
				} else if t, ok := c.x.(*Term); ok {
					taken = in.ex.decide(in, t, "if")
				} else {
					in.end("unsupported", "branch on %T (%v) in %s", c.x, c.x, in.where())
				}
				prev = bi
				if taken {
					bi = blk.Succs[0].Index
				} else {
					bi = blk.Succs[1].Index
				}
				goto nextBlock
			case *ssa.Jump:
				prev = bi
				bi = blk.Succs[0].Index
				goto nextBlock
			case *ssa.Return:
				in.runDefers(fr)
				switch len(ci.ops) {
				case 0:
					return Val{}
				case 1:
					return in.get(fr, ci.ops[0])
				default:
					tp := make(Tuple, len(ci.ops))
					for k := range ci.ops {
						tp[k] = in.get(fr, ci.ops[k])
					}
					return Val{x: tp}
				}
			case *ssa.Panic:
				v := in.get(fr, ci.ops[0])
				in.goPanic("explicit panic: " + in.describe(v))
			case *ssa.RunDefers:
				in.runDefers(fr)
			case *ssa.DebugRef:
			default:
				if in.initMode {
					in.execTolerant(fr, ci, x)
				} else {
					in.exec(fr, ci, x)
				}
			}
		}
		in.end("unsupported", "fell off block in %s", fr.fn.String())
	nextBlock:
	}
}

func (in *Interp) describe(v Val) string {
	switch x := v.x.(type) {
	case nil:
		return fmt.Sprintf("%d", v.c)
	case *Iface:
		if sv, ok := x.val.x.(*SliceV); ok {
			return x.typ.String() + ":" + in.strOf(sv)
		}
		if p, ok := x.val.x.(*Pointer); ok && p != nil {
			// errors.errorString{s string}
			if strings.Contains(x.typ.String(), "errorString") {
				if s, err := in.load(p.obj, p.off, types.Typ[types.String]); err == nil {
					if sv, ok := s.x.(*SliceV); ok {
						return "error(" + in.strOf(sv) + ")"
					}
				}
			}
		}
		return x.typ.String()
	}
	return fmt.Sprintf("%T", v.x)
}

func (in *Interp) strOf(sv *SliceV) string {
	if sv == nil {
		return ""
	}
	o := in.heap.rd(sv.obj)
	if sv.off+sv.len > o.size {
		return "?"
	}
	return string(o.b[sv.off : sv.off+sv.len])
}

func (in *Interp) goPanic(msg string) {
	in.end("panic", "%s @ %s", msg, in.where())
}

func (in *Interp) runDefers(fr *Frame) {
	for len(fr.defers) > 0 {
		d := fr.defers[len(fr.defers)-1]
		fr.defers = fr.defers[:len(fr.defers)-1]
		in.callValue(d.fn, d.args, d.call)
	}
}

// callValue calls a function value (function, closure, bound method, builtin).
func (in *Interp) callValue(fv Val, args []Val, cc *ssa.CallCommon) Val {
	switch f := fv.x.(type) {
	case *ssa.Function:
		return in.call(f, args, nil)
	case *Closure:
		return in.call(f.fn, args, f.free)
	case *BoundMethod:
		return in.call(f.fn, append([]Val{f.recv}, args...), nil)
	case *ssa.Builtin:
		return in.builtin(f, args, cc)
	case nil:
		in.goPanic("call of nil function")
	case *Poison:
		in.end("unsupported", "call of poison function value (%s) at %s", f.why, in.where())
	}
	in.end("unsupported", "call of %T", fv.x)
	return Val{}
}

func (in *Interp) exec(fr *Frame, ci *cinstr, ins ssa.Instruction) {
	var res Val
	switch x := ins.(type) {
	case *ssa.Alloc:
		et := x.Type().(*types.Pointer).Elem()
		o := in.heap.NewObject(sizeof(et), x.Comment)
		res = Val{x: &Pointer{obj: o}}
	case *ssa.BinOp:
		res = in.binop(x.Op, in.get(fr, ci.ops[0]), in.get(fr, ci.ops[1]), x.X.Type(), x.Y.Type())
	case *ssa.UnOp:
		res = in.unop(x, in.get(fr, ci.ops[0]))
	case *ssa.Call:
		res = in.doCall(fr, ci, &x.Call)
	case *ssa.Defer:
		fv, args := in.prepCall(fr, ci, &x.Call)
		fr.defers = append(fr.defers, deferred{fn: fv, args: args, call: &x.Call})
	case *ssa.Go:
		in.end("unsupported", "go statement in %s", in.where())
	case *ssa.ChangeType, *ssa.ChangeInterface:
		res = in.get(fr, ci.ops[0])
	case *ssa.Convert:
		res = in.convert(in.get(fr, ci.ops[0]), x.X.Type(), x.Type())
	case *ssa.MultiConvert:
		res = in.convert(in.get(fr, ci.ops[0]), x.X.Type(), x.Type())
	case *ssa.Extract:
		tv := in.get(fr, ci.ops[0])
		switch tp := tv.x.(type) {
		case Tuple:
			res = tp[x.Index]
		case *Poison:
			res = tv
		default:
			in.end("unsupported", "extract from %T in %s", tv.x, in.where())
		}
	case *ssa.Field:
		agg := in.get(fr, ci.ops[0])
		st := x.X.Type().Underlying().(*types.Struct)
		off := ci.k1
		ft := st.Field(x.Field).Type()
		if agg.x == nil {
			res = in.zeroVal(ft)
		} else if blob, ok := agg.x.(*Object); ok {
			v, err := in.loadRaw(blob, off, ft)
			if err != nil {
				in.end("unsupported", "%v", err)
			}
			res = v
		} else {
			res = in.poisonOr(agg, "field of %T", agg.x)
		}
	case *ssa.FieldAddr:
		pv := in.get(fr, ci.ops[0])
		p := in.ptrOf(pv, "field address")
		np := *p
		np.off += ci.k1
		res = Val{x: &np}
	case *ssa.Index:
		res = in.indexVal(x, in.get(fr, ci.ops[0]), in.get(fr, ci.ops[1]))
	case *ssa.IndexAddr:
		res = in.indexAddr(x, in.get(fr, ci.ops[0]), in.get(fr, ci.ops[1]))
	case *ssa.Lookup:
		res = in.lookup(x, in.get(fr, ci.ops[0]), in.get(fr, ci.ops[1]))
	case *ssa.MakeClosure:
		fn := x.Fn.(*ssa.Function)
		free := make([]Val, len(x.Bindings))
		for k := range x.Bindings {
			free[k] = in.get(fr, ci.ops[1+k])
		}
		res = Val{x: &Closure{fn: fn, free: free}}
	case *ssa.MakeInterface:
		v := in.get(fr, ci.ops[0])
		if _, ok := v.x.(*Poison); ok {
			res = v
		} else {
			res = Val{x: &Iface{typ: x.X.Type(), val: v}}
		}
	case *ssa.MakeSlice:
		ln := in.concInt(in.get(fr, ci.ops[0]), x.Len.Type(), "make len")
		cp := in.concInt(in.get(fr, ci.ops[1]), x.Cap.Type(), "make cap")
		if ln < 0 || cp < ln {
			in.goPanic("makeslice: len out of range")
		}
		if cp > 1<<28 {
			in.end("unsupported", "make of %d elements", cp)
		}
		et := x.Type().Underlying().(*types.Slice).Elem()
		o := in.heap.NewObject(sizeof(et)*cp, "makeslice")
		res = Val{x: &SliceV{obj: o, off: 0, len: ln, cap: cp}}
	case *ssa.MakeMap:
		res = Val{x: &Poison{"map"}}
		if !in.initMode {
			in.end("unsupported", "make(map) in %s", in.where())
		}
	case *ssa.MakeChan:
		res = Val{x: &Poison{"chan"}}
	case *ssa.MapUpdate:
		if !in.initMode {
			in.end("unsupported", "map update in %s", in.where())
		}
	case *ssa.Next:
		res = in.next(x, fr, ci)
	case *ssa.Range:
		res = in.rangeInit(x, in.get(fr, ci.ops[0]))
	case *ssa.Slice:
		res = in.slice(x, fr, ci)
	case *ssa.SliceToArrayPointer:
		sv, _ := in.get(fr, ci.ops[0]).x.(*SliceV)
		n := x.Type().Underlying().(*types.Pointer).Elem().Underlying().(*types.Array).Len()
		if sv == nil {
			if n != 0 {
				in.goPanic("slice to array pointer: nil slice")
			}
			res = Val{}
		} else {
			if sv.len < n {
				in.goPanic("slice to array pointer: short slice")
			}
			res = Val{x: &Pointer{obj: sv.obj, off: sv.off}}
		}
	case *ssa.Store:
		pv := in.get(fr, ci.ops[0])
		v := in.get(fr, ci.ops[1])
		in.storeThrough(pv, x.Val.Type(), v)
		return
	case *ssa.TypeAssert:
		res = in.typeAssert(x, in.get(fr, ci.ops[0]))
	case *ssa.Select, *ssa.Send:
		in.end("unsupported", "%T in %s", ins, in.where())
	default:
		in.end("unsupported", "instruction %T in %s", ins, in.where())
	}
	if ci.dst >= 0 {
		fr.regs[ci.dst] = res
	}
}

func (in *Interp) poisonOr(v Val, format string, a ...any) Val {
	if _, ok := v.x.(*Poison); ok {
		return v
	}
	in.end("unsupported", format+" in "+in.where(), a...)
	return Val{}
}

func (in *Interp) zeroVal(t types.Type) Val { return Val{} }

func (in *Interp) ptrOf(v Val, what string) *Pointer {
	switch p := v.x.(type) {
	case *Pointer:
		if p != nil {
			return p
		}
	case *Poison:
		in.end("unsupported", "%s through poison (%s) in %s", what, p.why, in.where())
	case nil:
	default:
		in.end("unsupported", "%s through %T in %s", what, v.x, in.where())
	}
	in.goPanic("nil pointer dereference (" + what + ")")
	return nil
}

// concInt forces a concrete integer (solver case split when symbolic).
func (in *Interp) concInt(v Val, t types.Type, what string) int64 {
	switch x := v.x.(type) {
	case nil:
		if isSigned(t) {
			return sext(v.c, bitsOf(t))
		}
		return int64(v.c)
	case *Term:
		var c uint64
		if kv, ok := in.ex.known[x]; ok {
			c = kv
		} else {
			c = in.ex.concretize(in, x, what)
		}
		if isSigned(t) {
			return sext(c, x.w)
		}
		return int64(c)
	case *Poison:
		in.end("unsupported", "%s: poison (%s) in %s", what, x.why, in.where())
	}
	in.end("unsupported", "%s: integer expected, got %T in %s", what, v.x, in.where())
	return 0
}

func (in *Interp) storeThrough(pv Val, t types.Type, v Val) {
	p := in.ptrOf(pv, "store")
	if p.idx != nil {
		in.symStore(p, t, v)
		return
	}
	if in.ex != nil && in.ex.phase != 0 && in.ex.inOnce == 0 {
		in.ex.fpW[in.ex.phase][in.heap.rd(p.obj)] = in.curFn()
		if p.obj.shared {
			in.ex.events = append(in.ex.events, Event{Kind: "assert", Label: "C17:write-to-package-level-state", Origin: in.curFn(), Msg: p.obj.name})
			in.end("violation", "write to shared state %s", p.obj.name)
		}
	}
	if err := in.store(p.obj, p.off, t, v); err != nil {
		in.memFault(err)
	}
}

func (in *Interp) memFault(err error) {
	msg := err.Error()
	if strings.Contains(msg, "outside allocation") {
		in.end("panic", "unsafe memory access: %s @ %s", msg, in.where())
	}
	in.end("unsupported", "%s @ %s", msg, in.where())
}

func (in *Interp) loadThrough(pv Val, t types.Type) Val {
	p := in.ptrOf(pv, "load")
	if p.idx != nil {
		return in.symLoad(p, t)
	}
	if in.ex != nil && in.ex.phase != 0 && in.ex.inOnce == 0 && !p.obj.shared {
		in.ex.fpR[in.ex.phase][in.heap.rd(p.obj)] = in.curFn()
	}
	if p.obj.pkg != nil && !in.initMode && !in.prog.initDone[p.obj.pkg] {
		return Val{x: &Poison{"global of uninitialised package " + p.obj.name}}
	}
	v, err := in.load(p.obj, p.off, t)
	if err != nil {
		in.memFault(err)
	}
	return v
}

func (in *Interp) unop(x *ssa.UnOp, v Val) Val {
	if po, ok := v.x.(*Poison); ok {
		if x.Op == token.MUL {
			in.end("unsupported", "load through poison (%s) in %s", po.why, in.where())
		}
		return v
	}
	switch x.Op {
	case token.MUL:
		return in.loadThrough(v, x.Type())
	case token.SUB:
		w := bitsOf(x.Type())
		if t, ok := v.x.(*Term); ok {
			return Val{x: in.ts.Neg(t)}
		}
		return Val{c: (-v.c) & mask(w)}
	case token.NOT:
		if t, ok := v.x.(*Term); ok {
			return Val{x: in.ts.BNot(t)}
		}
		return Val{c: v.c ^ 1}
	case token.XOR:
		w := bitsOf(x.Type())
		if t, ok := v.x.(*Term); ok {
			return Val{x: in.ts.Not(t)}
		}
		return Val{c: (^v.c) & mask(w)}
	case token.ARROW:
		in.end("unsupported", "channel receive in %s", in.where())
	}
	in.end("unsupported", "unop %s", x.Op)
	return Val{}
}

var traceCalls = os.Getenv("GOSYM_TRACE") != ""
var dbgInterp *Interp

func dbgVals(vs []Val) string {
	var parts []string
	for _, v := range vs {
		switch x := v.x.(type) {
		case nil:
			parts = append(parts, fmt.Sprintf("%d", int64(v.c)))
		case *Term:
			parts = append(parts, x.String())
		case *Pointer:
			if x == nil {
				parts = append(parts, "nilptr")
			} else {
				parts = append(parts, fmt.Sprintf("&%s+%d", x.obj.name, x.off))
			}
		case *SliceV:
			parts = append(parts, fmt.Sprintf("slice(%s+%d,len %d,cap %d)", x.obj.name, x.off, x.len, x.cap))
		case *Iface:
			if dbgInterp != nil {
				parts = append(parts, "iface("+dbgInterp.describe(v)+")")
			} else {
				parts = append(parts, "iface("+x.typ.String()+")")
			}
		case Tuple:
			parts = append(parts, "("+dbgVals(x)+")")
		default:
			parts = append(parts, fmt.Sprintf("%T", v.x))
		}
	}
	return strings.Join(parts, ", ")
}

// execTolerant runs one instruction during package initialisation; anything the
// engine cannot model yields a poison value instead of aborting the initialiser.
func (in *Interp) execTolerant(fr *Frame, ci *cinstr, ins ssa.Instruction) {
	depth, stack := in.depth, in.stack
	defer func() {
		if r := recover(); r != nil {
			pe, ok := r.(pathEnd)
			if !ok {
				pe = pathEnd{"unsupported", fmt.Sprint(r)}
			}
			in.depth, in.stack = depth, stack
			if ci.dst >= 0 {
				fr.regs[ci.dst] = Val{x: &Poison{"init: " + pe.msg}}
			}
		}
	}()
	in.exec(fr, ci, ins)
}
