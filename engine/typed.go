package main

// Typed load/store over byte memory, layout helpers.

import (
	"fmt"
	"os"
	"sync"
	"go/types"
)

var sizes = types.SizesFor("gc", "amd64")

var sizeCache sync.Map

func sizeof(t types.Type) int64 {
	if v, ok := sizeCache.Load(t); ok {
		return v.(int64)
	}
	sz := sizes.Sizeof(t)
	sizeCache.Store(t, sz)
	return sz
}

func (p *Program) fieldOffLocked(st *types.Struct, i int) int64 {
	p.offMu.Lock()
	offs, ok := p.offCache[st]
	if !ok {
		fields := make([]*types.Var, st.NumFields())
		for j := range fields {
			fields[j] = st.Field(j)
		}
		offs = sizes.Offsetsof(fields)
		p.offCache[st] = offs
	}
	p.offMu.Unlock()
	return offs[i]
}

type kind int

const (
	kScalar kind = iota // ints, bool, uintptr, unsafe.Pointer-as-int
	kPtr                // pointer, unsafe.Pointer, func, map, chan
	kSlice
	kString
	kIface
	kAgg // struct / array
	kFloat
	kTuple
)

func kindOf(t types.Type) kind {
	switch u := t.Underlying().(type) {
	case *types.Basic:
		switch {
		case u.Kind() == types.String || u.Kind() == types.UntypedString:
			return kString
		case u.Kind() == types.UnsafePointer:
			return kPtr
		case u.Info()&types.IsFloat != 0 || u.Info()&types.IsComplex != 0:
			return kFloat
		case u.Kind() == types.UntypedNil:
			return kPtr
		}
		return kScalar
	case *types.Pointer, *types.Signature, *types.Map, *types.Chan:
		return kPtr
	case *types.Slice:
		return kSlice
	case *types.Interface:
		return kIface
	case *types.Struct, *types.Array:
		return kAgg
	case *types.Tuple:
		return kTuple
	}
	return kScalar
}

func isSigned(t types.Type) bool {
	if b, ok := t.Underlying().(*types.Basic); ok {
		return b.Info()&types.IsInteger != 0 && b.Info()&types.IsUnsigned == 0
	}
	return false
}

func bitsOf(t types.Type) uint16 {
	return uint16(sizeof(t) * 8)
}

func isBoolT(t types.Type) bool {
	if b, ok := t.Underlying().(*types.Basic); ok {
		return b.Info()&types.IsBoolean != 0
	}
	return false
}

func fieldOffset(st *types.Struct, i int) int64 {
	fields := make([]*types.Var, st.NumFields())
	for j := range fields {
		fields[j] = st.Field(j)
	}
	return sizes.Offsetsof(fields)[i]
}

var offCache = map[*types.Struct][]int64{}

func (in *Interp) fieldOff(st *types.Struct, i int) int64 {
	in.prog.offMu.Lock()
	offs, ok := in.prog.offCache[st]
	if !ok {
		fields := make([]*types.Var, st.NumFields())
		for j := range fields {
			fields[j] = st.Field(j)
		}
		offs = sizes.Offsetsof(fields)
		in.prog.offCache[st] = offs
	}
	in.prog.offMu.Unlock()
	return offs[i]
}

// boolToByteTerm lifts a Bool term to an 8-bit term.
func (in *Interp) boolToByte(t *Term) *Term {
	return in.ts.Ite(t, in.ts.Const(1, 8), in.ts.Const(0, 8))
}

// load reads a value of type t at obj+off.
func (in *Interp) load(o *Object, off int64, t types.Type) (Val, error) {
	o = in.heap.rd(o)
	if len(o.stores) > 0 {
		return in.loadWithStores(o, off, t)
	}
	return in.loadRaw(o, off, t)
}

func (in *Interp) loadRaw(o *Object, off int64, t types.Type) (Val, error) {
	sz := sizeof(t)
	if off < 0 || off+sz > o.size {
		return Val{}, fmt.Errorf("load outside allocation: %s off=%d size=%d", o, off, sz)
	}
	switch kindOf(t) {
	case kScalar:
		v, err := o.loadScalar(in.ts, off, sz)
		if err != nil {
			return v, err
		}
		if isBoolT(t) {
			if tt, ok := v.x.(*Term); ok {
				return Val{x: in.ts.BNot(in.ts.Cmp(OpEq, tt, in.ts.Const(0, 8)))}, nil
			}
		}
		return v, nil
	case kFloat:
		v, err := o.loadScalar(in.ts, off, sz)
		return v, err
	case kPtr:
		p, err := o.getPtr(off)
		return Val{x: p}, err
	case kSlice, kString:
		p, err := o.getPtr(off)
		if err != nil {
			return Val{}, err
		}
		ln, err := o.loadScalar(in.ts, off+8, 8)
		if err != nil {
			return Val{}, err
		}
		if ln.x != nil {
			return Val{}, fmt.Errorf("symbolic slice length in memory")
		}
		if p == nil {
			return Val{}, nil
		}
		pp, ok := p.(*Pointer)
		if !ok {
			return Val{}, fmt.Errorf("slice data is %T", p)
		}
		sv := &SliceV{obj: pp.obj, off: pp.off, len: int64(ln.c), cap: int64(ln.c)}
		if kindOf(t) == kSlice {
			cp, err := o.loadScalar(in.ts, off+16, 8)
			if err != nil || cp.x != nil {
				return Val{}, fmt.Errorf("bad slice cap in memory")
			}
			sv.cap = int64(cp.c)
		}
		return Val{x: sv}, nil
	case kIface:
		p, err := o.getPtr(off)
		if err != nil {
			return Val{}, err
		}
		return Val{x: p}, nil
	case kAgg:
		blob := in.heap.NewObject(sz, "blob")
		copyRange(blob, 0, o, off, sz)
		return Val{x: blob}, nil
	}
	return Val{}, fmt.Errorf("load: unsupported type %s", t)
}

// store writes v of type t at obj+off.
func (in *Interp) store(o *Object, off int64, t types.Type, v Val) error {
	o = in.heap.wr(o)
	if o.ro {
		return fmt.Errorf("store to read-only object %s", o)
	}
	sz := sizeof(t)
	if off < 0 || off+sz > o.size {
		return fmt.Errorf("store outside allocation: %s off=%d size=%d", o, off, sz)
	}
	if len(o.stores) > 0 {
		if err := in.flushStoresFor(o, off, sz); err != nil {
			return err
		}
	}
	if _, ok := v.x.(*Poison); ok {
		if in.initMode {
			if dbgOn {
				fmt.Fprintf(os.Stderr, "init: skipped poison store into %s (%s) at %s\n", o, v.x.(*Poison).why, in.where())
			}
			return nil
		}
		return fmt.Errorf("store of poison value (%s)", v.x.(*Poison).why)
	}
	switch kindOf(t) {
	case kScalar, kFloat:
		if tt, ok := v.x.(*Term); ok && tt.w == 0 {
			v = Val{x: in.boolToByte(tt)}
			if v.x.(*Term).op == OpConst {
				v = Val{c: v.x.(*Term).k}
			}
		}
		return o.storeScalar(off, sz, v)
	case kPtr:
		o.setPtr(off, v.x)
		return nil
	case kSlice, kString:
		sv, _ := v.x.(*SliceV)
		if sv == nil {
			o.zeroRange(off, sz)
			return nil
		}
		o.setPtr(off, &Pointer{obj: sv.obj, off: sv.off})
		if err := o.storeScalar(off+8, 8, Val{c: uint64(sv.len)}); err != nil {
			return err
		}
		if kindOf(t) == kSlice {
			return o.storeScalar(off+16, 8, Val{c: uint64(sv.cap)})
		}
		return nil
	case kIface:
		o.zeroRange(off, 16)
		if v.x != nil {
			o.setPtr(off, v.x)
		}
		return nil
	case kAgg:
		if v.x == nil {
			o.zeroRange(off, sz)
			return nil
		}
		blob, ok := v.x.(*Object)
		if !ok {
			return fmt.Errorf("aggregate store of %T", v.x)
		}
		copyRange(o, off, blob, 0, sz)
		return nil
	}
	return fmt.Errorf("store: unsupported type %s", t)
}

// ---- pending symbolic-index stores ----

// loadWithStores reads through the pending store chain.
func (in *Interp) loadWithStores(o *Object, off int64, t types.Type) (Val, error) {
	sz := sizeof(t)
	base, err := in.loadRaw(o, off, t)
	if err != nil {
		return base, err
	}
	hit := false
	for _, st := range o.stores {
		if off+sz > st.base && off < st.base+st.n*st.stride {
			hit = true
		}
	}
	if !hit {
		return base, nil
	}
	if kindOf(t) != kScalar {
		return Val{}, fmt.Errorf("aggregate load over pending symbolic stores")
	}
	cur := in.toTerm(base, uint16(sz*8))
	for _, st := range o.stores {
		if !(off+sz > st.base && off < st.base+st.n*st.stride) {
			continue
		}
		// supported: load exactly one element slot (aligned, same width)
		rel := off - st.base
		if sz != st.w || rel%st.stride != 0 {
			return Val{}, fmt.Errorf("unaligned load over pending symbolic store")
		}
		k := rel / st.stride
		cond := in.ts.Cmp(OpEq, st.idx, in.ts.Const(uint64(k), st.idx.w))
		cur = in.ts.Ite(cond, st.val, cur)
	}
	return in.fromTerm(cur, t), nil
}

// flushStoresFor materialises pending stores before a concrete store that may overlap.
func (in *Interp) flushStoresFor(o *Object, off, sz int64) error {
	for _, st := range o.stores {
		if off+sz > st.base && off < st.base+st.n*st.stride {
			return in.materializeStores(o)
		}
	}
	return nil
}

func (in *Interp) materializeStores(o *Object) error {
	stores := o.stores
	o.stores = nil
	for _, st := range stores {
		if st.n > 8192 {
			return fmt.Errorf("materialising symbolic store over %d elements", st.n)
		}
		for k := int64(0); k < st.n; k++ {
			off := st.base + k*st.stride
			old, err := o.loadScalar(in.ts, off, st.w)
			if err != nil {
				return err
			}
			cond := in.ts.Cmp(OpEq, st.idx, in.ts.Const(uint64(k), st.idx.w))
			nv := in.ts.Ite(cond, st.val, in.toTerm(old, uint16(st.w*8)))
			var v Val
			if nv.op == OpConst {
				v = Val{c: nv.k}
			} else {
				v = Val{x: nv}
			}
			if err := o.storeScalar(off, st.w, v); err != nil {
				return err
			}
		}
	}
	return nil
}

// toTerm lifts a scalar value to a term of width w (Bool terms stay Bool if w==0).
func (in *Interp) toTerm(v Val, w uint16) *Term {
	if t, ok := v.x.(*Term); ok {
		return t
	}
	if w == 0 {
		return in.ts.Bool(v.c != 0)
	}
	return in.ts.Const(v.c, w)
}

func (in *Interp) fromTerm(t *Term, typ types.Type) Val {
	if t.op == OpConst || t.op == OpBool {
		return Val{c: t.k}
	}
	if isBoolT(typ) && t.w != 0 {
		return Val{x: in.ts.BNot(in.ts.Cmp(OpEq, t, in.ts.Const(0, t.w)))}
	}
	return Val{x: t}
}

var dbgOn = os.Getenv("GOSYM_DBG") != ""
