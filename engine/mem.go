package main

// Byte-granular memory objects, values and pointers.

import (
	"fmt"
	"go/types"

	"golang.org/x/tools/go/ssa"
)

// Val is a runtime value. x == nil: concrete scalar (c) or the zero value of
// any pointer-like / aggregate type. Otherwise x is one of:
// *Term, *Pointer, *SliceV, *Iface, *Closure, *ssa.Function, *ssa.Builtin,
// *Object (aggregate by value), Tuple, *Poison, *MapV.
type Val struct {
	c uint64
	x any
}

type Poison struct{ why string }

type Pointer struct {
	obj    *Object
	off    int64
	idx    *Term // optional symbolic element index (64-bit term)
	stride int64
	n      int64 // idx < n
}

// SliceV also represents strings (immutable object).
type SliceV struct {
	obj *Object
	off int64
	len int64
	cap int64
}

type Iface struct {
	typ types.Type
	val Val
}

type Closure struct {
	fn   *ssa.Function
	free []Val
}

type BoundMethod struct {
	fn   *ssa.Function
	recv Val
}

type Tuple []Val

type MapV struct{ why string }

type symByte struct {
	t   *Term
	idx uint8 // byte index within t (little endian)
}

const (
	flConc uint8 = 0
	flSym  uint8 = 1
	flPtr  uint8 = 2 // start of an 8-byte pointer-like slot
	flPtrC uint8 = 3 // continuation of a pointer slot
)

type Object struct {
	id     int
	size   int64
	b      []byte
	fl     []uint8
	nfl    int // number of non-zero flags
	sym    map[int64]symByte
	ptrs   map[int64]any
	shared bool // belongs to the base heap (copy on write)
	ro     bool
	name   string
	pkg    *ssa.Package // for globals
	stores []symStore   // pending stores at symbolic indices
}

type symStore struct {
	base   int64
	stride int64
	n      int64
	idx    *Term
	w      int64 // bytes
	val    *Term // width 8*w (constant values are lifted to terms)
}

func (o *Object) String() string { return fmt.Sprintf("obj%d<%s,%d>", o.id, o.name, o.size) }

type Heap struct {
	nextID  int
	private map[*Object]*Object // shared object -> private copy of this path
	nAlloc  int64
	record  bool
	all     []*Object
}

func (h *Heap) NewObject(size int64, name string) *Object {
	h.nextID++
	h.nAlloc += size
	o := &Object{id: h.nextID, size: size, b: make([]byte, size), name: name}
	if h.record {
		h.all = append(h.all, o)
	}
	return o
}

func (o *Object) ensureFl() {
	if o.fl == nil {
		o.fl = make([]uint8, o.size)
	}
}

// rd resolves an object for reading.
func (h *Heap) rd(o *Object) *Object {
	if o.shared && h.private != nil {
		if p, ok := h.private[o]; ok {
			return p
		}
	}
	return o
}

// wr resolves an object for writing (copy on write for the shared base heap).
func (h *Heap) wr(o *Object) *Object {
	if !o.shared {
		return o
	}
	if h.private == nil {
		h.private = map[*Object]*Object{}
	}
	if p, ok := h.private[o]; ok {
		return p
	}
	p := o.clone()
	p.shared = false
	p.id = o.id
	h.private[o] = p
	return p
}

func (o *Object) clone() *Object {
	n := &Object{id: o.id, size: o.size, name: o.name, ro: o.ro, pkg: o.pkg, nfl: o.nfl}
	n.b = append([]byte(nil), o.b...)
	if o.fl != nil {
		n.fl = append([]uint8(nil), o.fl...)
	}
	if len(o.sym) > 0 {
		n.sym = make(map[int64]symByte, len(o.sym))
		for k, v := range o.sym {
			n.sym[k] = v
		}
	}
	if len(o.ptrs) > 0 {
		n.ptrs = make(map[int64]any, len(o.ptrs))
		for k, v := range o.ptrs {
			n.ptrs[k] = v
		}
	}
	n.stores = append([]symStore(nil), o.stores...)
	return n
}

// clearRange removes symbolic / pointer annotations in [off, off+n).
func (o *Object) clearRange(off, n int64) {
	if o.nfl == 0 {
		return
	}
	// a pointer slot partially overwritten is destroyed entirely
	for i := off; i < off+n; i++ {
		switch o.fl[i] {
		case flSym:
			delete(o.sym, i)
			o.fl[i] = 0
			o.nfl--
		case flPtr:
			o.killPtr(i)
		case flPtrC:
			j := i
			for j > 0 && o.fl[j] == flPtrC {
				j--
			}
			o.killPtr(j)
		}
	}
}

func (o *Object) killPtr(i int64) {
	if o.fl[i] != flPtr {
		return
	}
	delete(o.ptrs, i)
	o.fl[i] = 0
	o.nfl--
	for j := i + 1; j < i+8 && j < o.size && o.fl[j] == flPtrC; j++ {
		o.fl[j] = 0
		o.nfl--
	}
}

func (o *Object) setPtr(off int64, x any) {
	o.clearRange(off, 8)
	for i := off; i < off+8; i++ {
		o.b[i] = 0
	}
	if x == nil {
		return
	}
	o.ensureFl()
	if o.ptrs == nil {
		o.ptrs = map[int64]any{}
	}
	o.ptrs[off] = x
	o.fl[off] = flPtr
	o.nfl++
	for i := off + 1; i < off+8; i++ {
		o.fl[i] = flPtrC
		o.nfl++
	}
}

func (o *Object) getPtr(off int64) (any, error) {
	if o.nfl == 0 || o.fl[off] == flConc {
		for i := off; i < off+8; i++ {
			if o.b[i] != 0 || (o.nfl != 0 && o.fl[i] != flConc) {
				return nil, fmt.Errorf("pointer load from non-pointer bytes at %s+%d", o, off)
			}
		}
		return nil, nil
	}
	if o.fl[off] == flPtr {
		return o.ptrs[off], nil
	}
	return nil, fmt.Errorf("misaligned/partial pointer load at %s+%d", o, off)
}

// copyRange copies n bytes (with annotations) from src to dst; ranges may overlap
// only when src and dst are the same object (memmove semantics).
func copyRange(dst *Object, doff int64, src *Object, soff int64, n int64) {
	if n <= 0 {
		return
	}
	if src.nfl == 0 {
		dst.clearRange(doff, n)
		copy(dst.b[doff:doff+n], src.b[soff:soff+n])
		return
	}
	// snapshot source annotations first (overlap safety)
	type ann struct {
		rel int64
		fl  uint8
		sb  symByte
		p   any
	}
	var anns []ann
	for i := int64(0); i < n; i++ {
		f := src.fl[soff+i]
		switch f {
		case flSym:
			anns = append(anns, ann{rel: i, fl: f, sb: src.sym[soff+i]})
		case flPtr:
			if i+8 <= n {
				anns = append(anns, ann{rel: i, fl: f, p: src.ptrs[soff+i]})
			}
		}
	}
	tmp := make([]byte, n)
	copy(tmp, src.b[soff:soff+n])
	dst.clearRange(doff, n)
	copy(dst.b[doff:doff+n], tmp)
	for _, a := range anns {
		switch a.fl {
		case flSym:
			dst.ensureFl()
			if dst.sym == nil {
				dst.sym = map[int64]symByte{}
			}
			dst.sym[doff+a.rel] = a.sb
			dst.fl[doff+a.rel] = flSym
			dst.nfl++
		case flPtr:
			dst.setPtr(doff+a.rel, a.p)
		}
	}
}

func (o *Object) zeroRange(off, n int64) {
	o.clearRange(off, n)
	for i := off; i < off+n; i++ {
		o.b[i] = 0
	}
}

// loadScalar reads w bytes little-endian.
func (o *Object) loadScalar(ts *TermStore, off int64, w int64) (Val, error) {
	if off < 0 || off+w > o.size {
		return Val{}, fmt.Errorf("load outside allocation: %s off=%d w=%d", o, off, w)
	}
	conc := true
	if o.nfl != 0 {
		for i := off; i < off+w; i++ {
			if o.fl[i] != flConc {
				conc = false
				break
			}
		}
	}
	if conc {
		var v uint64
		for i := w - 1; i >= 0; i-- {
			v = v<<8 | uint64(o.b[off+i])
		}
		return Val{c: v}, nil
	}
	// fast path: whole term
	if sb, ok := o.sym[off]; ok && o.fl[off] == flSym && sb.idx == 0 && int64(sb.t.w) == 8*w {
		all := true
		for i := int64(1); i < w; i++ {
			s2, ok2 := o.sym[off+i]
			if !ok2 || o.fl[off+i] != flSym || s2.t != sb.t || int64(s2.idx) != i {
				all = false
				break
			}
		}
		if all {
			return Val{x: sb.t}, nil
		}
	}
	var acc *Term
	for i := w - 1; i >= 0; i-- {
		var piece *Term
		switch o.fl[off+i] {
		case flConc:
			piece = ts.Const(uint64(o.b[off+i]), 8)
		case flSym:
			sb := o.sym[off+i]
			piece = ts.Extract(sb.t, uint16(sb.idx)*8+7, uint16(sb.idx)*8)
		default:
			if w == 8 && o.fl[off] == flPtr {
				// reading a pointer as an integer (uintptr): return the pointer payload
				return Val{x: o.ptrs[off]}, nil
			}
			return Val{}, fmt.Errorf("scalar load of pointer bytes at %s+%d", o, off+i)
		}
		if acc == nil {
			acc = piece
		} else {
			acc = ts.Concat(acc, piece)
		}
	}
	if acc.op == OpConst {
		return Val{c: acc.k}, nil
	}
	return Val{x: acc}, nil
}

func (o *Object) storeScalar(off int64, w int64, v Val) error {
	if off < 0 || off+w > o.size {
		return fmt.Errorf("store outside allocation: %s off=%d w=%d", o, off, w)
	}
	if o.ro {
		return fmt.Errorf("store to read-only object %s", o)
	}
	o.clearRange(off, w)
	switch t := v.x.(type) {
	case nil:
		c := v.c
		for i := int64(0); i < w; i++ {
			o.b[off+i] = byte(c)
			c >>= 8
		}
	case *Term:
		if t.w == 0 {
			// bool term stored as byte
			return fmt.Errorf("internal: bool term store")
		}
		if int64(t.w) != 8*w {
			return fmt.Errorf("internal: store width mismatch term w=%d bytes=%d", t.w, w)
		}
		o.ensureFl()
		if o.sym == nil {
			o.sym = map[int64]symByte{}
		}
		for i := int64(0); i < w; i++ {
			o.sym[off+i] = symByte{t, uint8(i)}
			o.fl[off+i] = flSym
			o.b[off+i] = 0
			o.nfl++
		}
	case *Pointer:
		if w != 8 {
			return fmt.Errorf("pointer stored into %d bytes", w)
		}
		o.setPtr(off, t)
	default:
		return fmt.Errorf("storeScalar: unsupported payload %T", v.x)
	}
	return nil
}
