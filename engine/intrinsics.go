package main

// Intercepted functions: the verifrt harness API and trusted models of a few
// stdlib / runtime helpers.

import (
	"sync"
	"fmt"
	"go/types"
	"hash/adler32"
	"hash/crc32"
	"math/bits"
	"strings"

	"golang.org/x/tools/go/ssa"
)

var fnNames sync.Map

const verifrtPath = "github.com/intel/fastgo/internal/verifrt."

func (in *Interp) strArg(v Val) string {
	sv, _ := v.x.(*SliceV)
	return in.strOf(sv)
}

func (in *Interp) intrinsic(fn *ssa.Function, args []Val) (Val, bool) {
	var name string
	if v, ok := fnNames.Load(fn); ok {
		name = v.(string)
	} else {
		name = fn.String()
		fnNames.Store(fn, name)
	}
	if in.ex != nil {
		in.ex.fcount[fn]++
	}
	if strings.HasPrefix(name, verifrtPath) {
		return in.verifrt(name[len(verifrtPath):], fn, args)
	}
	switch name {
	case "math/bits.TrailingZeros64", "math/bits.TrailingZeros32", "math/bits.TrailingZeros16", "math/bits.TrailingZeros8", "math/bits.TrailingZeros":
		w := bitsOf(fn.Signature.Params().At(0).Type())
		return in.bitScan(args[0], w, false), true
	case "math/bits.LeadingZeros64", "math/bits.LeadingZeros32", "math/bits.LeadingZeros16", "math/bits.LeadingZeros8", "math/bits.LeadingZeros":
		w := bitsOf(fn.Signature.Params().At(0).Type())
		return in.bitScan(args[0], w, true), true
	case "math/bits.Len64", "math/bits.Len32", "math/bits.Len16", "math/bits.Len8", "math/bits.Len":
		w := bitsOf(fn.Signature.Params().At(0).Type())
		lz := in.bitScan(args[0], w, true)
		if t, ok := lz.x.(*Term); ok {
			return Val{x: in.ts.Bin(OpSub, in.ts.Const(uint64(w), 64), t)}, true
		}
		return Val{c: uint64(w) - lz.c}, true
	case "math/bits.Reverse16", "math/bits.Reverse8", "math/bits.Reverse32", "math/bits.Reverse64":
		w := bitsOf(fn.Signature.Params().At(0).Type())
		if t, ok := args[0].x.(*Term); ok {
			var acc *Term
			for i := uint16(0); i < w; i++ {
				b := in.ts.Extract(t, i, i)
				if acc == nil {
					acc = b
				} else {
					acc = in.ts.Concat(acc, b)
				}
			}
			// acc = bit0 bit1 ... (bit0 is most significant) = reversed
			return Val{x: acc}, true
		}
		return Val{c: bits.Reverse64(args[0].c) >> (64 - w)}, true
	case "math/bits.OnesCount64", "math/bits.OnesCount32", "math/bits.OnesCount16", "math/bits.OnesCount8", "math/bits.OnesCount":
		if args[0].x == nil {
			return Val{c: uint64(bits.OnesCount64(args[0].c))}, true
		}
	case "hash/crc32.Update":
		return in.crcUpdate(args[0], args[2]), true
	case "hash/crc32.ChecksumIEEE":
		return in.crcUpdate(Val{}, args[0]), true
	case "hash/crc32.Checksum":
		return in.crcUpdate(Val{}, args[0]), true
	case "hash/adler32.update":
		return in.adlerUpdate(args[0], args[1]), true
	case "hash/adler32.Checksum":
		return in.adlerUpdate(Val{c: 1}, args[0]), true
	case "(*sync.Once).Do":
		p := in.ptrOf(args[0], "Once.Do")
		done, err := in.load(p.obj, p.off, types.Typ[types.Uint32])
		if err != nil {
			in.memFault(err)
		}
		if done.x == nil && done.c == 0 {
			if in.ex != nil {
				in.ex.inOnce++
			}
			in.store(p.obj, p.off, types.Typ[types.Uint32], Val{c: 1})
			in.callValue(args[1], nil, nil)
			if in.ex != nil {
				in.ex.inOnce--
			}
		}
		return Val{}, true
	case "(*sync.Mutex).Lock", "(*sync.Mutex).Unlock", "(*sync.RWMutex).Lock", "(*sync.RWMutex).Unlock", "(*sync.RWMutex).RLock", "(*sync.RWMutex).RUnlock":
		if in.ex != nil {
			in.ex.note(in, "sync", name, "synchronisation primitive reached")
		}
		return Val{}, true
	case "fmt.Errorf", "fmt.Sprintf", "fmt.Sprint", "fmt.Sprintln", "fmt.Fprintf", "fmt.Println", "fmt.Printf":
		if strings.HasPrefix(name, "fmt.Error") {
			return in.opaqueError("fmt.Errorf"), true
		}
		if strings.HasPrefix(name, "fmt.S") {
			o := in.prog.strObj("<fmt>")
			return Val{x: &SliceV{obj: o, len: o.size, cap: o.size}}, true
		}
		return Val{x: Tuple{Val{}, Val{}}}, true
	case "internal/bytealg.IndexByte", "bytes.IndexByte", "internal/bytealg.IndexByteString", "strings.IndexByte":
		sv, _ := args[0].x.(*SliceV)
		if sv == nil {
			return Val{c: ^uint64(0)}, true
		}
		if args[1].x != nil {
			in.end("unsupported", "IndexByte with symbolic needle")
		}
		o := in.heap.rd(sv.obj)
		for i := int64(0); i < sv.len; i++ {
			b, err := o.loadScalar(in.ts, sv.off+i, 1)
			if err != nil {
				in.memFault(err)
			}
			if t, ok := b.x.(*Term); ok {
				if in.ex.decide(in, in.ts.Cmp(OpEq, t, in.ts.Const(args[1].c, 8)), "IndexByte") {
					return Val{c: uint64(i)}, true
				}
				continue
			}
			if b.c == args[1].c {
				return Val{c: uint64(i)}, true
			}
		}
		return Val{c: ^uint64(0)}, true
	case "errors.Is":
		// model: walk the Unwrap chain comparing with == (custom Is methods are not modelled)
		cur := args[0]
		for depth := 0; depth < 8; depth++ {
			eq := in.ifaceEq(cur, args[1])
			if eq.x != nil {
				in.end("unsupported", "errors.Is on symbolic error values")
			}
			if eq.c != 0 {
				return Val{c: 1}, true
			}
			ifc, _ := cur.x.(*Iface)
			if ifc == nil {
				return Val{}, true
			}
			ms := in.prog.prog.MethodSets.MethodSet(ifc.typ)
			sel := ms.Lookup(nil, "Unwrap")
			if sel == nil {
				return Val{}, true
			}
			fnU := in.prog.prog.MethodValue(sel)
			if fnU == nil || fnU.Signature.Results().Len() != 1 {
				return Val{}, true
			}
			cur = in.call(fnU, []Val{ifc.val}, nil)
		}
		return Val{}, true
	case "runtime.KeepAlive", "runtime.GC", "runtime.SetFinalizer", "internal/race.Enabled":
		return Val{}, true
	case "internal/abi.NoEscape", "internal/abi.Escape":
		return args[0], true
	case "internal/cpu.Initialize", "internal/cpu.doinit":
		return Val{}, true
	}
	return Val{}, false
}

func (in *Interp) opaqueError(msg string) Val {
	// *errors.errorString{s}
	ep := in.prog.prog.ImportedPackage("errors")
	if ep == nil {
		in.end("unsupported", "errors package not loaded")
	}
	return in.call(ep.Func("New"), []Val{{x: &SliceV{obj: in.prog.strObj(msg), len: int64(len(msg)), cap: int64(len(msg))}}}, nil)
}

func (in *Interp) bitScan(v Val, w uint16, leading bool) Val {
	if t, ok := v.x.(*Term); ok {
		acc := in.ts.Const(uint64(w), 64)
		if leading {
			for i := uint16(0); i < w; i++ { // lowest set bit considered last => highest wins
				bit := in.ts.Cmp(OpEq, in.ts.Extract(t, i, i), in.ts.Const(1, 1))
				acc = in.ts.Ite(bit, in.ts.Const(uint64(w-1-i), 64), acc)
			}
		} else {
			for i := int(w) - 1; i >= 0; i-- {
				bit := in.ts.Cmp(OpEq, in.ts.Extract(t, uint16(i), uint16(i)), in.ts.Const(1, 1))
				acc = in.ts.Ite(bit, in.ts.Const(uint64(i), 64), acc)
			}
		}
		return Val{x: acc}
	}
	x := v.c & mask(w)
	if leading {
		return Val{c: uint64(bits.LeadingZeros64(x)) - uint64(64-w)}
	}
	if x == 0 {
		return Val{c: uint64(w)}
	}
	return Val{c: uint64(bits.TrailingZeros64(x))}
}

func (in *Interp) bytesOf(v Val) []Val {
	sv, _ := v.x.(*SliceV)
	if sv == nil {
		return nil
	}
	o := in.heap.rd(sv.obj)
	out := make([]Val, sv.len)
	for i := int64(0); i < sv.len; i++ {
		b, err := in.load(o, sv.off+i, types.Typ[types.Uint8])
		if err != nil {
			in.memFault(err)
		}
		out[i] = b
	}
	return out
}

func (in *Interp) crcUpdate(crc Val, p Val) Val {
	bs := in.bytesOf(p)
	cur := crc
	for _, b := range bs {
		if cur.x == nil && b.x == nil {
			cur = Val{c: uint64(crc32.Update(uint32(cur.c), crc32.IEEETable, []byte{byte(b.c)}))}
			continue
		}
		cur = Val{x: in.ts.UF("crcF", 32, in.toTerm(cur, 32), in.toTerm(b, 8))}
	}
	return cur
}

func (in *Interp) adlerUpdate(d Val, p Val) Val {
	bs := in.bytesOf(p)
	cur := d
	for _, b := range bs {
		if cur.x == nil && b.x == nil {
			cur = Val{c: ufEval("adlerF", cur.c, b.c)}
			continue
		}
		cur = Val{x: in.ts.UF("adlerF", 32, in.toTerm(cur, 32), in.toTerm(b, 8))}
	}
	_ = adler32.Size
	return cur
}

func (in *Interp) verifrt(name string, fn *ssa.Function, args []Val) (Val, bool) {
	pc := in.ex
	if pc == nil {
		return Val{}, false
	}
	fresh := func(w uint16) Val { return Val{x: pc.newInput(in, w)} }
	switch name {
	case "U8":
		return fresh(8), true
	case "U16":
		return fresh(16), true
	case "U32":
		return fresh(32), true
	case "U64", "Int":
		return fresh(64), true
	case "Bool":
		t := pc.newInput(in, 8)
		return Val{x: in.ts.BNot(in.ts.Cmp(OpEq, in.ts.Bin(OpAnd, t, in.ts.Const(1, 8)), in.ts.Const(0, 8)))}, true
	case "Bytes":
		n := in.concInt(args[0], types.Typ[types.Int], "Bytes(n)")
		o := in.heap.NewObject(n, "verifrt.Bytes")
		for i := int64(0); i < n; i++ {
			o.storeScalar(i, 1, fresh(8))
		}
		return Val{x: &SliceV{obj: o, len: n, cap: n}}, true
	case "Assume":
		c := args[0]
		if t, ok := c.x.(*Term); ok {
			pc.assume(in, t)
			return Val{}, true
		}
		if c.c == 0 {
			in.end("assume", "")
		}
		return Val{}, true
	case "Assert":
		label := in.strArg(args[1])
		c := args[0]
		okv := true
		if t, ok := c.x.(*Term); ok {
			okv = pc.decide(in, t, "assert:"+label)
		} else {
			okv = c.c != 0
		}
		if !okv {
			pc.events = append(pc.events, Event{Kind: "assert", Label: label, Origin: pc.lastOrigin(in)})
			in.end("violation", "assertion %s failed", label)
		}
		return Val{}, true
	case "Cover":
		pc.covers[in.strArg(args[0])] = true
		return Val{}, true
	case "Concretize":
		return Val{c: uint64(in.concInt(args[0], types.Typ[types.Int], "Concretize"))}, true
	case "Pick":
		label := in.strArg(args[0])
		n := in.concInt(args[1], types.Typ[types.Int], "Pick n")
		v, ok := pc.exp.cfg.Picks[label]
		if !ok {
			in.end("unsupported", "no value configured for Pick(%q)", label)
		}
		if int64(v) >= n || v < 0 {
			in.end("assume", "pick out of range")
		}
		pc.picks[label] = v
		return Val{c: uint64(v)}, true
	case "Param":
		label := in.strArg(args[0])
		v, ok := pc.params[label]
		if !ok {
			in.end("unsupported", "no value configured for Param(%q)", label)
		}
		return Val{c: uint64(v)}, true
	case "Observe":
		pc.obs = append(pc.obs, obsRec{label: in.strArg(args[0]), vals: []Val{args[1]}, w: 64})
		return Val{}, true
	case "ObserveBytes":
		pc.obs = append(pc.obs, obsRec{label: in.strArg(args[0]), vals: in.bytesOf(args[1]), w: 8})
		return Val{}, true
	case "Parallel":
		// sequential execution with per-phase read/write footprints
		for ph := 1; ph <= 2; ph++ {
			pc.fpR[ph] = map[*Object]string{}
			pc.fpW[ph] = map[*Object]string{}
		}
		pc.phase = 1
		in.callValue(args[0], nil, nil)
		pc.phase = 2
		in.callValue(args[1], nil, nil)
		pc.phase = 0
		report := func(o *Object, who string) {
			pc.events = append(pc.events, Event{Kind: "assert", Label: "C17:shared-memory-conflict", Origin: who, Msg: "object " + o.name})
		}
		n := 0
		for o, who := range pc.fpW[1] {
			_, r := pc.fpR[2][o]
			_, w := pc.fpW[2][o]
			if (r || w) && n < 5 {
				report(o, who)
				n++
			}
		}
		for o, who := range pc.fpW[2] {
			if _, r := pc.fpR[1][o]; r && n < 5 {
				report(o, who)
				n++
			}
		}
		if n > 0 {
			in.end("violation", "instances share written memory")
		}
		return Val{}, true
	case "Origin":
		pc.originTag = in.strArg(args[0])
		return Val{}, true
	case "IsSymbolic":
		return Val{c: 1}, true
	}
	return Val{}, false
}

func (pc *PathCtx) lastOrigin(in *Interp) string {
	if pc.originTag != "" {
		return pc.originTag
	}
	return ""
}

var _ = fmt.Sprintf
