package main

import (
	"runtime/debug"
	"runtime/pprof"
	"encoding/json"
	"flag"
	"fmt"
	"go/types"
	"os"
	"path/filepath"
	"sort"
	"strings"
	"time"

	"golang.org/x/tools/go/packages"
	"golang.org/x/tools/go/ssa"
	"golang.org/x/tools/go/ssa/ssautil"
)

type multiFlag []string

func (m *multiFlag) String() string     { return strings.Join(*m, ",") }
func (m *multiFlag) Set(s string) error { *m = append(*m, s); return nil }

var defaultAllow = []string{
	"github.com/intel/fastgo", "errors", "io", "bufio", "bytes", "strings", "compress/flate", "compress/gzip", "compress/zlib",
	"hash/crc32", "hash/adler32", "hash", "encoding/binary", "math/bits", "unicode/utf8", "time", "sort", "math", "strconv", "internal/bytealg",
	"internal/byteorder",
}

type Output struct {
	Harness   string            `json:"harness"`
	Pkg       string            `json:"pkg"`
	Tags      string            `json:"tags"`
	Params    map[string]int    `json:"params"`
	Picks     map[string]int    `json:"picks"`
	Paths     []*PathResult     `json:"paths"`
	Stats     Stats             `json:"stats"`
	Funcs     map[string]int64  `json:"functions_encoded"`
	WallS     float64           `json:"wall_s"`
	LoadS     float64           `json:"load_s"`
	Complete  bool              `json:"complete"`
	Error     string            `json:"error,omitempty"`
	Counts    map[string]int    `json:"counts"`
	Covers    []string          `json:"covers"`
	InitNotes []string          `json:"init_notes,omitempty"`
	Steps     int64             `json:"steps"`
	Meta      map[string]string `json:"meta,omitempty"`
	DecKinds  map[string]int    `json:"decision_kinds,omitempty"`
	Cross     map[string]int    `json:"cross_checked,omitempty"`
}

func main() {
	var (
		repo      = flag.String("repo", "/repo", "repository root")
		pkgPath   = flag.String("pkg", "", "import path of the package holding the harness")
		harness   = flag.String("harness", "", "harness function name")
		tags      = flag.String("tags", "verif", "build tags")
		overlayD  = flag.String("overlay", "", "directory tree with harness sources mirrored on the repo layout")
		out       = flag.String("out", "", "result JSON")
		workers   = flag.Int("workers", 16, "parallel workers")
		maxDec    = flag.Int("maxdec", 400, "max symbolic decisions per path")
		maxConc   = flag.Int("maxconc", 300, "max values per concretisation")
		maxSteps  = flag.Int64("maxsteps", 80_000_000, "instruction budget per path")
		maxPaths  = flag.Int("maxpaths", 0, "stop after this many paths (0 = no limit); run is then incomplete")
		solverBin = flag.String("solver", "z3-new", "solver binary")
		timeoutMs = flag.Int("timeout", 20000, "per-query timeout (ms)")
		retryMs   = flag.Int("retry", 120000, "fresh-solver retry budget for unknown answers (ms, 0 = off)")
		maxViol   = flag.Int("maxviol", 400, "stop exploring after this many violating path classes (0 = no limit)")
		capPref   = flag.String("capprefix", "", "comma-separated assertion-label prefixes that count toward -maxviol (empty = all)")
		crossN    = flag.Int("crosscheck", 0, "re-check the closing unsat query of every N-th path class with z3 4.8.12 (0 = off)")
		trackW    = flag.Bool("trackwrites", false, "record write footprints")
		traceSMT  = flag.String("tracesmt", "", "file to dump SMT text to (worker 0)")
		deadline  = flag.Int("deadline", 0, "wall-clock budget in seconds (0 = none); run is then incomplete")
		listFns   = flag.Bool("list", false, "list harness functions (Verif*) and exit")
		params    multiFlag
		picks     multiFlag
	)
	flag.Var(&params, "param", "name=value (repeatable)")
	flag.Var(&picks, "pick", "label=value (repeatable)")
	cpuprof := flag.String("cpuprofile", "", "write cpu profile")
	flag.Parse()
	if *cpuprof != "" {
		f, _ := os.Create(*cpuprof)
		pprof.StartCPUProfile(f)
		defer pprof.StopCPUProfile()
	}
	debug.SetGCPercent(400)
	t0 := time.Now()
	output := &Output{Harness: *harness, Pkg: *pkgPath, Tags: *tags, Params: map[string]int{}, Picks: map[string]int{}, Counts: map[string]int{}}
	for _, p := range params {
		var k string
		var v int
		kv := strings.SplitN(p, "=", 2)
		k = kv[0]
		fmt.Sscanf(kv[1], "%d", &v)
		output.Params[k] = v
	}
	for _, p := range picks {
		kv := strings.SplitN(p, "=", 2)
		var v int
		fmt.Sscanf(kv[1], "%d", &v)
		output.Picks[kv[0]] = v
	}
	fail := func(format string, a ...any) {
		output.Error = fmt.Sprintf(format, a...)
		output.WallS = time.Since(t0).Seconds()
		writeOut(*out, output)
		fmt.Fprintln(os.Stderr, "gosym:", output.Error)
		os.Exit(2)
	}

	overlay := map[string][]byte{}
	if *overlayD != "" {
		filepath.Walk(*overlayD, func(p string, info os.FileInfo, err error) error {
			if err != nil || info.IsDir() || !strings.HasSuffix(p, ".go") {
				return nil
			}
			rel, _ := filepath.Rel(*overlayD, p)
			data, _ := os.ReadFile(p)
			overlay[filepath.Join(*repo, rel)] = data
			return nil
		})
	}
	cfg := &packages.Config{
		Mode:       packages.LoadAllSyntax,
		Dir:        *repo,
		BuildFlags: []string{"-tags=" + *tags},
		Overlay:    overlay,
		Env:        append(os.Environ(), "GOFLAGS=-mod=mod", "GOPROXY=off", "GOSUMDB=off", "GOTOOLCHAIN=local", "CGO_ENABLED=0"),
	}
	initial, err := packages.Load(cfg, *pkgPath)
	if err != nil {
		fail("harness-build: load: %v", err)
	}
	var errs []string
	packages.Visit(initial, nil, func(p *packages.Package) {
		for _, e := range p.Errors {
			errs = append(errs, e.Error())
		}
	})
	if len(errs) > 0 {
		fail("harness-build: %s", strings.Join(errs, "; "))
	}
	prog, _ := ssautil.AllPackages(initial, ssa.InstantiateGenerics)
	prog.Build()
	var mainPkg *ssa.Package
	for _, p := range prog.AllPackages() {
		if p.Pkg.Path() == *pkgPath {
			mainPkg = p
		}
	}
	if mainPkg == nil {
		fail("harness-build: package %s not found", *pkgPath)
	}
	if *listFns {
		var names []string
		for name, m := range mainPkg.Members {
			if _, ok := m.(*ssa.Function); ok && strings.HasPrefix(name, "Verif") {
				names = append(names, name)
			}
		}
		sort.Strings(names)
		for _, n := range names {
			fmt.Println(n)
		}
		return
	}
	entry := mainPkg.Func(*harness)
	if entry == nil {
		fail("harness-build: function %s not found in %s", *harness, *pkgPath)
	}
	P := &Program{prog: prog, pkgs: map[string]*ssa.Package{}, globals: map[*ssa.Global]*Object{}, offCache: map[*types.Struct][]int64{},
		initDone: map[*ssa.Package]bool{}, initAllow: map[string]bool{}, baseHeap: &Heap{}, repo: *repo}
	for _, a := range defaultAllow {
		P.initAllow[a] = true
	}
	notes := P.runInits(mainPkg)
	output.InitNotes = notes
	output.LoadS = time.Since(t0).Seconds()

	ex := &Explorer{prog: P, entry: entry, cfg: Config{Workers: *workers, MaxDecisions: *maxDec, MaxConcretize: *maxConc, MaxSteps: *maxSteps,
		MaxPaths: *maxPaths, SolverBin: *solverBin, SolverArgs: solverArgs(*solverBin), TimeoutMs: *timeoutMs, Params: output.Params, Picks: output.Picks,
		TrackWrites: *trackW, Tally: os.Getenv("GOSYM_TALLY") != "", TraceSMT: *traceSMT, RetryMs: *retryMs, CrossCheck: *crossN, MaxViol: *maxViol, CapPrefixes: splitNonEmpty(*capPref)}}
	if *deadline > 0 {
		ex.cfg.Deadline = time.Now().Add(time.Duration(*deadline) * time.Second)
	}
	ex.Run()
	sort.Slice(ex.results, func(i, j int) bool { return ex.results[i].ID < ex.results[j].ID })
	output.Paths = ex.results
	covers := map[string]bool{}
	for _, r := range ex.results {
		output.Counts[r.Status]++
		output.Steps += r.Steps
		if r.Status != "infeasible" {
			for _, c := range r.Covers {
				covers[c] = true
			}
		}
	}
	for c := range covers {
		output.Covers = append(output.Covers, c)
	}
	sort.Strings(output.Covers)
	for _, s := range ex.stats {
		output.Stats.Sat += s.Sat
		output.Stats.Unsat += s.Unsat
		output.Stats.Unknown += s.Unknown
		output.Stats.Errors += s.Errors
		output.Stats.Queries += s.Queries
		output.Stats.SolverSec += s.SolverSec
	}
	output.Funcs = ex.funcs
	output.DecKinds = ex.decKinds
	output.Cross = ex.cross
	output.Complete = !ex.stopped
	output.WallS = time.Since(t0).Seconds()
	writeOut(*out, output)
	fmt.Fprintf(os.Stderr, "gosym: %s paths=%d %v queries=%d (unknown %d) solver=%.1fs wall=%.1fs complete=%v\n", *harness, len(ex.results), output.Counts,
		output.Stats.Queries, output.Stats.Unknown, output.Stats.SolverSec, output.WallS, output.Complete)
}

func solverArgs(bin string) []string {
	if strings.Contains(bin, "cvc5") {
		return []string{"--incremental", "--lang=smt2", "--produce-models"}
	}
	return []string{"-in"}
}

func writeOut(path string, o *Output) {
	data, _ := json.MarshalIndent(o, "", " ")
	if path == "" {
		os.Stdout.Write(data)
		return
	}
	os.WriteFile(path, data, 0o644)
}

func (p *Program) allowed(pkg *ssa.Package) bool {
	path := pkg.Pkg.Path()
	if p.initAllow[path] {
		return true
	}
	return strings.HasPrefix(path, "github.com/intel/fastgo")
}

// runInits executes package initialisers (allow-listed) concretely into the base heap.
func (p *Program) runInits(root *ssa.Package) []string {
	var notes []string
	p.baseHeap.record = true
	in := &Interp{prog: p, ts: NewTermStore(), heap: p.baseHeap, maxSt: 2_000_000_000, initMode: true}
	var runInit func(pkg *ssa.Package)
	runInit = func(pkg *ssa.Package) {
		if p.initDone[pkg] {
			return
		}
		p.initDone[pkg] = true
		func() {
			defer func() {
				if r := recover(); r != nil {
					notes = append(notes, fmt.Sprintf("init of %s incomplete: %v", pkg.Pkg.Path(), r))
				}
			}()
			in.hookBypass = true
			in.call(pkg.Func("init"), nil, nil)
		}()
	}
	in.initHook = func(fn *ssa.Function) bool {
		// called for every call to a package initialiser from another one
		if fn.Pkg == nil {
			return true
		}
		if !p.allowed(fn.Pkg) {
			return true // skip
		}
		savedStack, savedDepth := in.stack, in.depth
		runInit(fn.Pkg)
		in.stack, in.depth = savedStack, savedDepth
		return true
	}
	runInit(root)
	for _, o := range p.baseHeap.all {
		o.shared = true
	}
	p.gmu.Lock()
	for _, o := range p.globals {
		o.shared = true
	}
	p.gmu.Unlock()
	p.baseHeap.record = false
	p.frozen = true
	p.dbgGlobals()
	return notes
}

func splitNonEmpty(s string) []string {
	var out []string
	for _, p := range strings.Split(s, ",") {
		if p != "" {
			out = append(out, p)
		}
	}
	return out
}
