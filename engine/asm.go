package main

// asmsym: a small symbolic executor for Go (Plan 9) amd64 assembly, covering
// the instruction subset used by compress/flate/decode_amd64.s. Memory operands
// are resolved through the same byte-granular memory as the Go code, so the
// hard-coded displacements are reads of the Go struct fields iff they match the
// current layout.

import (
	"fmt"
	"go/types"
	"os"
	"path/filepath"
	"strconv"
	"strings"

	"golang.org/x/tools/go/ssa"
)

type asmArg struct {
	kind  int // 0 imm, 1 reg, 2 mem
	imm   int64
	reg   string
	base  string
	idx   string
	scale int64
	disp  int64
	sym   string // FP pseudo name or SB symbol
	fp    bool
	sb    bool
}

type asmInsn struct {
	op   string
	args []asmArg
	line int
	text string
}

type asmFunc struct {
	name   string
	insns  []asmInsn
	labels map[string]int
	data   map[string][]byte // DATA symbols
	file   string
}

func parseAsmFile(path string) (map[string]*asmFunc, error) {
	raw, err := os.ReadFile(path)
	if err != nil {
		return nil, err
	}
	funcs := map[string]*asmFunc{}
	data := map[string][]byte{}
	var cur *asmFunc
	for ln, line := range strings.Split(string(raw), "\n") {
		if i := strings.Index(line, "//"); i >= 0 {
			line = line[:i]
		}
		line = strings.TrimSpace(line)
		if line == "" || strings.HasPrefix(line, "#") {
			continue
		}
		if strings.HasSuffix(line, ":") && !strings.Contains(line, " ") {
			if cur != nil {
				cur.labels[strings.TrimSuffix(line, ":")] = len(cur.insns)
			}
			continue
		}
		fields := strings.SplitN(line, " ", 2)
		op := fields[0]
		rest := ""
		if len(fields) > 1 {
			rest = strings.TrimSpace(fields[1])
		}
		switch op {
		case "TEXT":
			name := strings.TrimPrefix(strings.SplitN(rest, "(", 2)[0], "·")
			cur = &asmFunc{name: name, labels: map[string]int{}, data: data, file: path}
			funcs[name] = cur
			continue
		case "DATA":
			// DATA sym<>+off(SB)/w, $value
			parts := strings.SplitN(rest, ",", 2)
			lhs := strings.TrimSpace(parts[0])
			w := 8
			if i := strings.LastIndex(lhs, "/"); i >= 0 {
				w, _ = strconv.Atoi(lhs[i+1:])
				lhs = lhs[:i]
			}
			sym := strings.TrimPrefix(strings.TrimSuffix(lhs[:strings.Index(lhs, "+")], "<>"), "·")
			offs := lhs[strings.Index(lhs, "+")+1 : strings.Index(lhs, "(")]
			off, _ := strconv.Atoi(offs)
			v, _ := strconv.ParseUint(strings.TrimPrefix(strings.TrimSpace(parts[1]), "$"), 0, 64)
			b := data[sym]
			for len(b) < off+w {
				b = append(b, 0)
			}
			for i := 0; i < w; i++ {
				b[off+i] = byte(v >> (8 * uint(i)))
			}
			data[sym] = b
			continue
		case "GLOBL":
			continue
		}
		if cur == nil {
			continue
		}
		ins := asmInsn{op: op, line: ln + 1, text: line}
		if rest != "" {
			for _, a := range splitArgs(rest) {
				arg, err := parseAsmArg(strings.TrimSpace(a))
				if err != nil {
					return nil, fmt.Errorf("%s:%d: %v", path, ln+1, err)
				}
				ins.args = append(ins.args, arg)
			}
		}
		cur.insns = append(cur.insns, ins)
	}
	return funcs, nil
}

func splitArgs(s string) []string {
	var out []string
	depth := 0
	cur := ""
	for _, ch := range s {
		switch ch {
		case '(':
			depth++
		case ')':
			depth--
		case ',':
			if depth == 0 {
				out = append(out, cur)
				cur = ""
				continue
			}
		}
		cur += string(ch)
	}
	if strings.TrimSpace(cur) != "" {
		out = append(out, cur)
	}
	return out
}

func isReg(s string) bool {
	switch s {
	case "AX", "BX", "CX", "DX", "SI", "DI", "BP", "SP", "R8", "R9", "R10", "R11", "R12", "R13", "R14", "R15", "DL", "AL", "BL", "CL":
		return true
	}
	return len(s) >= 2 && s[0] == 'X' && s[1] >= '0' && s[1] <= '9'
}

func parseAsmArg(s string) (asmArg, error) {
	if strings.HasPrefix(s, "$") {
		v, err := strconv.ParseInt(strings.TrimPrefix(s[1:], "+"), 0, 64)
		if err != nil {
			u, err2 := strconv.ParseUint(strings.TrimPrefix(s[1:], "+"), 0, 64)
			if err2 != nil {
				return asmArg{}, fmt.Errorf("bad immediate %q", s)
			}
			v = int64(u)
		}
		return asmArg{kind: 0, imm: v}, nil
	}
	if isReg(s) {
		return asmArg{kind: 1, reg: s}, nil
	}
	if !strings.Contains(s, "(") {
		// label
		return asmArg{kind: 3, sym: s}, nil
	}
	a := asmArg{kind: 2, scale: 1}
	i := strings.Index(s, "(")
	pre := s[:i]
	rest := s[i:]
	// groups
	var groups []string
	for len(rest) > 0 && rest[0] == '(' {
		j := strings.Index(rest, ")")
		groups = append(groups, rest[1:j])
		rest = rest[j+1:]
	}
	if groups[0] == "FP" || groups[0] == "SB" || groups[0] == "SP" && strings.ContainsAny(pre, "abcdefghijklmnopqrstuvwxyz") {
		a.fp = groups[0] == "FP"
		a.sb = groups[0] == "SB"
		k := strings.LastIndexAny(pre, "+-")
		if k > 0 {
			a.sym = pre[:k]
			d, _ := strconv.ParseInt(pre[k:], 0, 64)
			a.disp = d
		} else {
			a.sym = pre
		}
		a.sym = strings.TrimPrefix(strings.TrimSuffix(a.sym, "<>"), "·")
		return a, nil
	}
	if pre != "" {
		d, err := strconv.ParseInt(strings.TrimPrefix(pre, "+"), 0, 64)
		if err != nil {
			return a, fmt.Errorf("bad displacement %q", s)
		}
		a.disp = d
	}
	a.base = groups[0]
	if len(groups) > 1 {
		p := strings.Split(groups[1], "*")
		a.idx = p[0]
		if len(p) > 1 {
			a.scale, _ = strconv.ParseInt(p[1], 10, 64)
		}
	}
	return a, nil
}

// ---- execution ----

type asmFlags struct {
	cmp  bool // true: compare a with b; false: result value a
	a, b Val
}

type asmState struct {
	in    *Interp
	f     *asmFunc
	fn    *ssa.Function
	regs  map[string]Val
	xregs map[string][2]Val
	fl    asmFlags
	args  []Val
	res   [2]Val
	recvT types.Type
}

func (p *Program) asmFor(fn *ssa.Function) *asmFunc {
	if fn.Pkg == nil {
		return nil
	}
	p.asmMu.Lock()
	defer p.asmMu.Unlock()
	if p.asmFuncs == nil {
		p.asmFuncs = map[string]map[string]*asmFunc{}
	}
	path := fn.Pkg.Pkg.Path()
	fs, ok := p.asmFuncs[path]
	if !ok {
		fs = map[string]*asmFunc{}
		const mod = "github.com/intel/fastgo"
		if strings.HasPrefix(path, mod) {
			dir := filepath.Join(p.repo, strings.TrimPrefix(path, mod))
			files, _ := filepath.Glob(filepath.Join(dir, "*_amd64.s"))
			for _, f := range files {
				m, err := parseAsmFile(f)
				if err != nil {
					p.asmErr = err.Error()
					continue
				}
				for k, v := range m {
					fs[k] = v
				}
			}
		}
		p.asmFuncs[path] = fs
	}
	return fs[fn.Name()]
}

func (in *Interp) runAsm(fn *ssa.Function, af *asmFunc, args []Val) Val {
	st := &asmState{in: in, f: af, fn: fn, regs: map[string]Val{}, xregs: map[string][2]Val{}, args: args}
	pc := 0
	for steps := 0; ; steps++ {
		in.steps++
		if in.steps > in.maxSt {
			in.end("budget", "instruction budget exceeded in assembly %s", af.name)
		}
		if pc >= len(af.insns) {
			in.end("unsupported", "assembly %s ran off its end", af.name)
		}
		ins := &af.insns[pc]
		next, done := st.step(ins, pc)
		if done {
			return Val{x: Tuple{st.res[0], st.res[1]}}
		}
		pc = next
	}
}

func (st *asmState) fail(ins *asmInsn, format string, a ...any) {
	st.in.end("unsupported", "asm %s:%d `%s`: %s", filepath.Base(st.f.file), ins.line, ins.text, fmt.Sprintf(format, a...))
}

func (st *asmState) reg(name string) Val {
	switch name {
	case "DL":
		return st.low(st.regs["DX"], 8)
	case "AL":
		return st.low(st.regs["AX"], 8)
	case "CL":
		return st.low(st.regs["CX"], 8)
	}
	return st.regs[name]
}

func (st *asmState) low(v Val, w uint16) Val {
	if t, ok := v.x.(*Term); ok {
		return st.in.fromTerm(st.in.ts.ZExt(st.in.ts.Extract(t, w-1, 0), 64), types.Typ[types.Uint64])
	}
	return Val{c: v.c & mask(w)}
}

func (st *asmState) term(v Val) *Term { return st.in.toTerm(v, 64) }

func (st *asmState) fromT(t *Term) Val {
	if t.op == OpConst {
		return Val{c: t.k}
	}
	return Val{x: t}
}

// conc forces a register value concrete (solver case split).
func (st *asmState) conc(v Val, what string) int64 {
	if t, ok := v.x.(*Term); ok {
		if kv, ok2 := st.in.ex.known[t]; ok2 {
			return int64(kv)
		}
		return int64(st.in.ex.concretize(st.in, t, "asm "+what))
	}
	return int64(v.c)
}

// fpArg maps a frame reference to argument words.
func (st *asmState) fpLoad(ins *asmInsn, a asmArg) Val {
	sig := st.fn.Signature
	off := int64(0)
	for i := 0; i < sig.Params().Len(); i++ {
		t := sig.Params().At(i).Type()
		sz := sizeof(t)
		if a.disp >= off && a.disp < off+sz {
			rel := a.disp - off
			v := st.args[i]
			switch kindOf(t) {
			case kSlice:
				sv, _ := v.x.(*SliceV)
				switch rel {
				case 0:
					if sv == nil {
						return Val{}
					}
					return Val{x: &Pointer{obj: sv.obj, off: sv.off}}
				case 8:
					if sv == nil {
						return Val{}
					}
					return Val{c: uint64(sv.len)}
				case 16:
					if sv == nil {
						return Val{}
					}
					return Val{c: uint64(sv.cap)}
				}
			default:
				if rel == 0 {
					return v
				}
			}
		}
		off += (sz + 7) &^ 7
	}
	st.fail(ins, "frame reference %s+%d not an argument", a.sym, a.disp)
	return Val{}
}

func (st *asmState) fpStore(ins *asmInsn, a asmArg, v Val) {
	sig := st.fn.Signature
	off := int64(0)
	for i := 0; i < sig.Params().Len(); i++ {
		off += (sizeof(sig.Params().At(i).Type()) + 7) &^ 7
	}
	for i := 0; i < sig.Results().Len() && i < 2; i++ {
		if a.disp == off {
			st.res[i] = v
			return
		}
		off += 8
	}
	st.fail(ins, "store to frame slot %s+%d", a.sym, a.disp)
}

// addr resolves a memory operand to a pointer (possibly with a symbolic index).
func (st *asmState) addr(ins *asmInsn, a asmArg) *Pointer {
	in := st.in
	if a.sb {
		if b, ok := st.f.data[a.sym]; ok {
			o := &Object{id: -2, size: int64(len(b)), b: b, name: "asmdata " + a.sym, ro: true}
			return &Pointer{obj: o, off: a.disp}
		}
		// Go global
		if g, ok := st.fn.Pkg.Members[a.sym].(*ssa.Global); ok {
			return &Pointer{obj: in.prog.globalObj(g), off: a.disp}
		}
		st.fail(ins, "unknown symbol %s", a.sym)
	}
	bv := st.reg(a.base)
	bp, ok := bv.x.(*Pointer)
	if !ok || bp == nil {
		st.fail(ins, "base register %s does not hold a pointer (%T)", a.base, bv.x)
	}
	np := *bp
	np.off += a.disp
	if a.idx != "" {
		iv := st.reg(a.idx)
		if t, isT := iv.x.(*Term); isT {
			if kv, ok2 := in.ex.known[t]; ok2 {
				np.off += int64(kv) * a.scale
			} else if np.idx == nil {
				np.idx = t
				np.stride = a.scale
				np.n = 0
			} else if np.stride == a.scale {
				np.idx = in.ts.Bin(OpAdd, np.idx, t)
			} else {
				st.fail(ins, "two symbolic index components with different scales")
			}
		} else if _, isP := iv.x.(*Pointer); isP {
			st.fail(ins, "pointer used as index")
		} else {
			np.off += int64(iv.c) * a.scale
		}
	}
	return &np
}

// bound finds how many elements of the given stride fit between p.off and the
// end of the innermost array field (of the object's static type) that contains p.off.
func (st *asmState) bound(p *Pointer, width int64) int64 {
	in := st.in
	o := in.heap.rd(p.obj)
	limit := o.size
	// type-directed narrowing for the first pointer argument (the state struct)
	if len(st.args) > 0 {
		if ap, ok := st.args[0].x.(*Pointer); ok && ap != nil && in.heap.rd(ap.obj) == o {
			if pt, ok := st.fn.Signature.Params().At(0).Type().Underlying().(*types.Pointer); ok {
				if end := fieldEnd(pt.Elem(), p.off-ap.off); end > 0 {
					limit = ap.off + end
				}
			}
		}
	}
	if g := o.pkg; g != nil {
		for gl, obj := range in.prog.globals {
			if obj == p.obj {
				if end := fieldEnd(gl.Type().(*types.Pointer).Elem(), p.off); end > 0 {
					limit = end
				}
			}
		}
	}
	n := (limit - p.off) / p.stride
	mv := in.ts.maxVal(p.idx)
	if mv < uint64(n) {
		n = int64(mv) + 1
	}
	return n
}

// fieldEnd returns the end offset of the innermost array containing off (0 if none).
func fieldEnd(t types.Type, off int64) int64 {
	switch u := t.Underlying().(type) {
	case *types.Struct:
		fields := make([]*types.Var, u.NumFields())
		for i := range fields {
			fields[i] = u.Field(i)
		}
		offs := sizes.Offsetsof(fields)
		for i, f := range fields {
			sz := sizeof(f.Type())
			if off >= offs[i] && off < offs[i]+sz {
				if e := fieldEnd(f.Type(), off-offs[i]); e > 0 {
					return offs[i] + e
				}
				return 0
			}
		}
	case *types.Array:
		esz := sizeof(u.Elem())
		if esz == 0 {
			return 0
		}
		k := off / esz
		if e := fieldEnd(u.Elem(), off-k*esz); e > 0 {
			return k*esz + e
		}
		return u.Len() * esz
	}
	return 0
}

var widthType = map[int64]types.Type{1: types.Typ[types.Uint8], 2: types.Typ[types.Uint16], 4: types.Typ[types.Uint32], 8: types.Typ[types.Uint64]}

func (st *asmState) load(ins *asmInsn, a asmArg, width int64) Val {
	in := st.in
	if a.fp {
		return st.fpLoad(ins, a)
	}
	p := st.addr(ins, a)
	if p.idx != nil {
		p.n = st.bound(p, width)
		if p.n <= 0 {
			st.fail(ins, "symbolic index with empty range")
		}
		inb := in.ts.Cmp(OpUlt, p.idx, in.ts.Const(uint64(p.n), 64))
		if !in.ex.decide(in, inb, "asm-index-range") {
			in.end("panic", "assembly reads outside the table field: %s line %d @ %s", filepath.Base(st.f.file), ins.line, in.where())
		}
		return in.symLoad(p, widthType[width])
	}
	o := in.heap.rd(p.obj)
	if width == 8 && p.off >= 0 && p.off+8 <= o.size && o.nfl != 0 && o.fl[p.off] == flPtr {
		return Val{x: o.ptrs[p.off]}
	}
	v, err := in.load(p.obj, p.off, widthType[width])
	if err != nil {
		in.memFault(err)
	}
	return v
}

func (st *asmState) store(ins *asmInsn, a asmArg, width int64, v Val) {
	in := st.in
	if a.fp {
		st.fpStore(ins, a, v)
		return
	}
	p := st.addr(ins, a)
	if p.idx != nil {
		st.fail(ins, "store at symbolic address")
	}
	if pv, ok := v.x.(*Pointer); ok {
		if width != 8 {
			st.fail(ins, "narrow store of a pointer")
		}
		o := in.heap.wr(p.obj)
		if p.off < 0 || p.off+8 > o.size {
			in.end("panic", "unsafe memory access: asm pointer store outside allocation @ %s", in.where())
		}
		o.setPtr(p.off, pv)
		return
	}
	if t, ok := v.x.(*Term); ok && width < 8 {
		v = in.fromTerm(in.ts.Extract(t, uint16(width*8-1), 0), widthType[width])
	} else if !ok {
		v = Val{c: v.c & mask(uint16(width*8))}
	}
	if err := in.store(p.obj, p.off, widthType[width], v); err != nil {
		in.memFault(err)
	}
}

func (st *asmState) val(ins *asmInsn, a asmArg, width int64) Val {
	switch a.kind {
	case 0:
		return Val{c: uint64(a.imm)}
	case 1:
		return st.reg(a.reg)
	case 2:
		return st.load(ins, a, width)
	}
	st.fail(ins, "bad operand")
	return Val{}
}

func (st *asmState) setReg(name string, v Val) {
	st.regs[name] = v
}

// alu computes dst op src for integer operands; pointer arithmetic is handled by the caller.
func (st *asmState) alu(op Op, a, b Val) Val {
	in := st.in
	_, at := a.x.(*Term)
	_, bt := b.x.(*Term)
	if !at && !bt {
		return Val{c: evalBin(op, a.c, b.c, 64)}
	}
	return st.fromT(in.ts.Bin(op, st.term(a), st.term(b)))
}

func (st *asmState) cond(ins *asmInsn, cc string) bool {
	in := st.in
	f := st.fl
	var t *Term
	ts := in.ts
	if f.cmp {
		pa, aIsP := f.a.x.(*Pointer)
		pb, bIsP := f.b.x.(*Pointer)
		var a, b *Term
		if aIsP && bIsP {
			if in.heap.rd(pa.obj) != in.heap.rd(pb.obj) || pa.idx != nil || pb.idx != nil {
				st.fail(ins, "comparison of pointers into different objects")
			}
			a, b = ts.Const(uint64(pa.off), 64), ts.Const(uint64(pb.off), 64)
		} else if aIsP || bIsP {
			st.fail(ins, "comparison of a pointer with an integer")
		} else {
			a, b = st.term(f.a), st.term(f.b)
		}
		switch cc {
		case "E":
			t = ts.Cmp(OpEq, a, b)
		case "NE":
			t = ts.BNot(ts.Cmp(OpEq, a, b))
		case "G":
			t = ts.Cmp(OpSlt, b, a)
		case "GE":
			t = ts.Cmp(OpSle, b, a)
		case "L":
			t = ts.Cmp(OpSlt, a, b)
		case "LE":
			t = ts.Cmp(OpSle, a, b)
		default:
			st.fail(ins, "condition %s", cc)
		}
	} else {
		v := st.term(f.a)
		z := ts.Const(0, 64)
		switch cc {
		case "E":
			t = ts.Cmp(OpEq, v, z)
		case "NE":
			t = ts.BNot(ts.Cmp(OpEq, v, z))
		case "G":
			t = ts.Cmp(OpSlt, z, v)
		case "GE":
			t = ts.Cmp(OpSle, z, v)
		case "L":
			t = ts.Cmp(OpSlt, v, z)
		case "LE":
			t = ts.Cmp(OpSle, v, z)
		default:
			st.fail(ins, "condition %s", cc)
		}
	}
	if t.op == OpBool {
		return t.k == 1
	}
	return in.ex.decide(in, t, "asm-j"+cc)
}

func (st *asmState) step(ins *asmInsn, pc int) (int, bool) {
	in := st.in
	A := ins.args
	switch ins.op {
	case "RET":
		return 0, true
	case "JMP":
		return st.f.labels[A[0].sym], false
	case "JZ", "JE", "JNE", "JNZ", "JG", "JGE", "JL", "JLE":
		cc := strings.TrimPrefix(ins.op, "J")
		if cc == "Z" {
			cc = "E"
		}
		if cc == "NZ" {
			cc = "NE"
		}
		if st.cond(ins, cc) {
			tgt, ok := st.f.labels[A[0].sym]
			if !ok {
				st.fail(ins, "unknown label")
			}
			return tgt, false
		}
		return pc + 1, false
	case "PREFETCHT0":
		return pc + 1, false
	case "MOVQ", "MOVL", "MOVW", "MOVB", "MOVWQZX":
		width := map[string]int64{"MOVQ": 8, "MOVL": 4, "MOVW": 2, "MOVB": 1, "MOVWQZX": 2}[ins.op]
		src, dst := A[0], A[1]
		v := st.val(ins, src, width)
		if dst.kind == 1 {
			switch ins.op {
			case "MOVQ":
				st.setReg(dst.reg, v)
			case "MOVL", "MOVWQZX":
				st.setReg(dst.reg, st.low(v, uint16(width*8)))
			case "MOVW", "MOVB":
				// partial register write keeps the upper bits
				name := dst.reg
				if name == "DL" {
					name = "DX"
				}
				old := st.regs[name]
				w := uint16(width * 8)
				nt := in.ts.Concat(in.ts.Extract(st.term(old), 63, w), in.ts.Extract(st.term(v), w-1, 0))
				st.setReg(name, st.fromT(nt))
			}
		} else {
			st.store(ins, dst, width, v)
		}
		return pc + 1, false
	case "LEAQ":
		src, dst := A[0], A[1]
		if src.sb {
			st.setReg(dst.reg, Val{x: st.addr(ins, src)})
			return pc + 1, false
		}
		bv := st.reg(src.base)
		if _, isP := bv.x.(*Pointer); isP {
			// pointer arithmetic: index must become concrete
			a2 := src
			if src.idx != "" {
				iv := st.reg(src.idx)
				if _, isT := iv.x.(*Term); isT {
					k := st.conc(iv, "pointer index")
					a2.idx = ""
					a2.disp += k * src.scale
				}
			}
			st.setReg(dst.reg, Val{x: st.addr(ins, a2)})
			return pc + 1, false
		}
		// integer LEA: base + idx*scale + disp
		r := st.alu(OpAdd, bv, Val{c: uint64(src.disp)})
		if src.idx != "" {
			iv := st.reg(src.idx)
			if _, isP := iv.x.(*Pointer); isP {
				st.fail(ins, "pointer as LEA index")
			}
			r = st.alu(OpAdd, r, st.alu(OpMul, iv, Val{c: uint64(src.scale)}))
		}
		st.setReg(dst.reg, r)
		return pc + 1, false
	case "ADDQ", "SUBQ":
		src, dst := A[0], A[1]
		sv := st.val(ins, src, 8)
		dv := st.val(ins, dst, 8)
		dp, dIsP := dv.x.(*Pointer)
		sp, sIsP := sv.x.(*Pointer)
		var r Val
		switch {
		case dIsP && sIsP:
			if ins.op != "SUBQ" || in.heap.rd(dp.obj) != in.heap.rd(sp.obj) {
				st.fail(ins, "pointer + pointer")
			}
			r = Val{c: uint64(dp.off - sp.off)}
			st.fl = asmFlags{cmp: true, a: Val{c: uint64(dp.off)}, b: Val{c: uint64(sp.off)}}
		case dIsP:
			k := st.conc(sv, "pointer offset")
			np := *dp
			if ins.op == "ADDQ" {
				np.off += k
			} else {
				np.off -= k
			}
			r = Val{x: &np}
			st.fl = asmFlags{cmp: false, a: Val{c: 1}}
		case sIsP:
			if ins.op != "ADDQ" {
				st.fail(ins, "integer - pointer")
			}
			k := st.conc(dv, "pointer offset")
			np := *sp
			np.off += k
			r = Val{x: &np}
			st.fl = asmFlags{cmp: false, a: Val{c: 1}}
		default:
			if ins.op == "ADDQ" {
				r = st.alu(OpAdd, dv, sv)
				st.fl = asmFlags{cmp: false, a: r}
			} else {
				r = st.alu(OpSub, dv, sv)
				st.fl = asmFlags{cmp: true, a: dv, b: sv}
			}
		}
		if dst.kind == 1 {
			st.setReg(dst.reg, r)
		} else {
			st.store(ins, dst, 8, r)
		}
		return pc + 1, false
	case "ANDQ", "ORQ", "XORQ":
		src, dst := A[0], A[1]
		op := map[string]Op{"ANDQ": OpAnd, "ORQ": OpOr, "XORQ": OpXor}[ins.op]
		var r Val
		if ins.op == "XORQ" && src.kind == 1 && dst.kind == 1 && src.reg == dst.reg {
			r = Val{}
		} else {
			r = st.alu(op, st.val(ins, dst, 8), st.val(ins, src, 8))
		}
		st.setReg(dst.reg, r)
		st.fl = asmFlags{cmp: false, a: r}
		return pc + 1, false
	case "SHRQ", "SHLQ":
		src, dst := A[0], A[1]
		op := OpLShr
		if ins.op == "SHLQ" {
			op = OpShl
		}
		cnt := st.val(ins, src, 8)
		cnt = st.alu(OpAnd, cnt, Val{c: 63})
		if _, isT := cnt.x.(*Term); isT {
			cnt = Val{c: uint64(st.conc(cnt, "shift count"))}
		}
		r := st.alu(op, st.val(ins, dst, 8), cnt)
		st.setReg(dst.reg, r)
		st.fl = asmFlags{cmp: false, a: r}
		return pc + 1, false
	case "SHRXQ", "SHLXQ":
		op := OpLShr
		if ins.op == "SHLXQ" {
			op = OpShl
		}
		cnt := st.alu(OpAnd, st.val(ins, A[0], 8), Val{c: 63})
		if _, isT := cnt.x.(*Term); isT {
			cnt = Val{c: uint64(st.conc(cnt, "shift count"))}
		}
		st.setReg(A[2].reg, st.alu(op, st.val(ins, A[1], 8), cnt))
		return pc + 1, false
	case "BZHIQ":
		// dst = src with bits from index (low 8 bits of A[0]) upwards cleared
		idx := st.alu(OpAnd, st.val(ins, A[0], 8), Val{c: 255})
		if _, isT := idx.x.(*Term); isT {
			idx = Val{c: uint64(st.conc(idx, "bzhi index"))}
		}
		sv := st.val(ins, A[1], 8)
		if idx.c < 64 {
			sv = st.alu(OpAnd, sv, Val{c: mask(uint16(idx.c))})
			if idx.c == 0 {
				sv = Val{}
			}
		}
		st.setReg(A[2].reg, sv)
		st.fl = asmFlags{cmp: false, a: sv}
		return pc + 1, false
	case "CMPQ":
		st.fl = asmFlags{cmp: true, a: st.val(ins, A[0], 8), b: st.val(ins, A[1], 8)}
		return pc + 1, false
	case "TESTQ":
		r := st.alu(OpAnd, st.val(ins, A[0], 8), st.val(ins, A[1], 8))
		st.fl = asmFlags{cmp: false, a: r}
		return pc + 1, false
	case "CMOVQGT":
		if st.cond(ins, "G") {
			st.setReg(A[1].reg, st.val(ins, A[0], 8))
		}
		return pc + 1, false
	case "MOVOU":
		src, dst := A[0], A[1]
		if dst.kind == 1 {
			lo := st.load(ins, src, 8)
			s2 := src
			s2.disp += 8
			hi := st.load(ins, s2, 8)
			st.xregs[dst.reg] = [2]Val{lo, hi}
		} else {
			x := st.xregs[src.reg]
			// destination index register must be concrete
			d2 := dst
			if dst.idx != "" {
				iv := st.reg(dst.idx)
				k := st.conc(iv, "copy distance")
				d2.idx = ""
				d2.disp += k * dst.scale
			}
			st.store(ins, d2, 8, x[0])
			d2.disp += 8
			st.store(ins, d2, 8, x[1])
		}
		return pc + 1, false
	case "PSHUFB":
		m := st.f.data[A[0].sym]
		if len(m) < 16 {
			st.fail(ins, "PSHUFB mask %s not found", A[0].sym)
		}
		x := st.xregs[A[1].reg]
		byteOf := func(i int) *Term {
			v := x[i/8]
			return in.ts.Extract(st.term(v), uint16(i%8)*8+7, uint16(i%8)*8)
		}
		var out [2]Val
		for h := 0; h < 2; h++ {
			var acc *Term
			for i := 7; i >= 0; i-- {
				mb := m[h*8+i]
				var b *Term
				if mb&0x80 != 0 {
					b = in.ts.Const(0, 8)
				} else {
					b = byteOf(int(mb & 15))
				}
				if acc == nil {
					acc = b
				} else {
					acc = in.ts.Concat(acc, b)
				}
			}
			out[h] = st.fromT(acc)
		}
		st.xregs[A[1].reg] = out
		return pc + 1, false
	}
	st.fail(ins, "unsupported instruction")
	return 0, true
}
