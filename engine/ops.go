package main

import (
	"fmt"
	"go/token"
	"go/types"
	"unicode/utf8"

	"golang.org/x/tools/go/ssa"
)

func b2v(b bool) Val {
	if b {
		return Val{c: 1}
	}
	return Val{}
}

func (in *Interp) binop(op token.Token, a, b Val, ta, tb types.Type) Val {
	if _, ok := a.x.(*Poison); ok {
		return a
	}
	if _, ok := b.x.(*Poison); ok {
		return b
	}
	switch kindOf(ta) {
	case kScalar:
		return in.intBinop(op, a, b, ta, tb)
	case kString:
		return in.strBinop(op, a, b)
	case kPtr:
		eq := in.ptrEq(a, b)
		if op == token.EQL {
			return b2v(eq)
		}
		if op == token.NEQ {
			return b2v(!eq)
		}
	case kIface:
		r := in.ifaceEq(a, b)
		if op == token.NEQ {
			if t, ok := r.x.(*Term); ok {
				return Val{x: in.ts.BNot(t)}
			}
			return Val{c: r.c ^ 1}
		}
		return r
	case kSlice:
		// only comparison with nil
		sa, _ := a.x.(*SliceV)
		sb, _ := b.x.(*SliceV)
		eq := sa == nil && sb == nil
		if op == token.EQL {
			return b2v(eq)
		}
		return b2v(!eq)
	case kAgg:
		return in.aggEq(op, a, b, ta)
	}
	in.end("unsupported", "binop %s on %s in %s", op, ta, in.where())
	return Val{}
}

func (in *Interp) aggEq(op token.Token, a, b Val, t types.Type) Val {
	sz := sizeof(t)
	oa, _ := a.x.(*Object)
	ob, _ := b.x.(*Object)
	acc := in.ts.Bool(true)
	for i := int64(0); i < sz; i++ {
		var va, vb Val
		var err error
		if oa != nil {
			if va, err = oa.loadScalar(in.ts, i, 1); err != nil {
				in.end("unsupported", "aggregate compare: %v", err)
			}
		}
		if ob != nil {
			if vb, err = ob.loadScalar(in.ts, i, 1); err != nil {
				in.end("unsupported", "aggregate compare: %v", err)
			}
		}
		acc = in.ts.BAnd(acc, in.ts.Cmp(OpEq, in.toTerm(va, 8), in.toTerm(vb, 8)))
	}
	if op == token.NEQ {
		acc = in.ts.BNot(acc)
	}
	return in.fromTerm(acc, types.Typ[types.Bool])
}

func (in *Interp) ptrEq(a, b Val) bool {
	pa, _ := a.x.(*Pointer)
	pb, _ := b.x.(*Pointer)
	if a.x != nil && pa == nil || b.x != nil && pb == nil {
		// function values etc: identity only against nil
		return a.x == nil && b.x == nil || a.x == b.x
	}
	if pa == nil || pb == nil {
		return pa == nil && pb == nil
	}
	if pa.idx != nil || pb.idx != nil {
		in.end("unsupported", "comparison of symbolic pointers")
	}
	return in.heap.rd(pa.obj) == in.heap.rd(pb.obj) && pa.off == pb.off
}

func (in *Interp) ifaceEq(a, b Val) Val {
	ia, _ := a.x.(*Iface)
	ib, _ := b.x.(*Iface)
	if ia == nil || ib == nil {
		return b2v(ia == nil && ib == nil)
	}
	if !types.Identical(ia.typ, ib.typ) {
		return Val{}
	}
	switch kindOf(ia.typ) {
	case kPtr:
		return b2v(in.ptrEq(ia.val, ib.val))
	case kScalar:
		return in.intBinop(token.EQL, ia.val, ib.val, ia.typ, ib.typ)
	case kString:
		return in.strBinop(token.EQL, ia.val, ib.val)
	case kAgg:
		return in.aggEq(token.EQL, ia.val, ib.val, ia.typ)
	}
	in.end("unsupported", "interface comparison of %s", ia.typ)
	return Val{}
}

func (in *Interp) strBinop(op token.Token, a, b Val) Val {
	sa, _ := a.x.(*SliceV)
	sb, _ := b.x.(*SliceV)
	la, lb := int64(0), int64(0)
	if sa != nil {
		la = sa.len
	}
	if sb != nil {
		lb = sb.len
	}
	switch op {
	case token.ADD:
		if la == 0 {
			return b
		}
		if lb == 0 {
			return a
		}
		o := in.heap.NewObject(la+lb, "strcat")
		copyRange(o, 0, in.heap.rd(sa.obj), sa.off, la)
		copyRange(o, la, in.heap.rd(sb.obj), sb.off, lb)
		return Val{x: &SliceV{obj: o, len: la + lb, cap: la + lb}}
	case token.EQL, token.NEQ:
		var r *Term
		if la != lb {
			r = in.ts.Bool(false)
		} else {
			r = in.ts.Bool(true)
			for i := int64(0); i < la; i++ {
				x, e1 := in.heap.rd(sa.obj).loadScalar(in.ts, sa.off+i, 1)
				y, e2 := in.heap.rd(sb.obj).loadScalar(in.ts, sb.off+i, 1)
				if e1 != nil || e2 != nil {
					in.end("unsupported", "string compare load")
				}
				r = in.ts.BAnd(r, in.ts.Cmp(OpEq, in.toTerm(x, 8), in.toTerm(y, 8)))
			}
		}
		if op == token.NEQ {
			r = in.ts.BNot(r)
		}
		return in.fromTerm(r, types.Typ[types.Bool])
	}
	in.end("unsupported", "string op %s", op)
	return Val{}
}

func (in *Interp) intBinop(op token.Token, a, b Val, ta, tb types.Type) Val {
	w := bitsOf(ta)
	signed := isSigned(ta)
	isBool := isBoolT(ta)
	// pointer arithmetic through uintptr
	if pa, ok := a.x.(*Pointer); ok {
		return in.ptrArith(op, pa, b, tb)
	}
	if pb, ok := b.x.(*Pointer); ok && op == token.ADD {
		return in.ptrArith(op, pb, a, ta)
	}
	if in.ex != nil && len(in.ex.known) > 0 {
		if t, ok := a.x.(*Term); ok {
			if v, ok2 := in.ex.known[t]; ok2 {
				a = Val{c: v}
			}
		}
		if t, ok := b.x.(*Term); ok {
			if v, ok2 := in.ex.known[t]; ok2 {
				b = Val{c: v}
			}
		}
	}
	_, aSym := a.x.(*Term)
	bx, bSym := b.x.(*Term)
	if a.x != nil && !aSym || b.x != nil && !bSym {
		in.end("unsupported", "integer op %s on %T,%T in %s", op, a.x, b.x, in.where())
	}
	isShift := op == token.SHL || op == token.SHR
	if isShift && isSigned(tb) {
		// negative shift count panics
		wb := bitsOf(tb)
		if bSym {
			if in.ex.decide(in, in.ts.Cmp(OpSlt, bx, in.ts.Const(0, wb)), "negshift") {
				in.goPanic("negative shift amount")
			}
		} else if sext(b.c, wb) < 0 {
			in.goPanic("negative shift amount")
		}
	}
	if isShift && bSym && concShift {
		// case split on the shift amount: keeps every later formula a fixed bit slice
		c := in.ex.concretize(in, bx, "shift amount")
		b = Val{c: c}
		bSym = false
		if !aSym {
			return in.intBinop(op, a, b, ta, tb)
		}
	}
	if (op == token.QUO || op == token.REM) && !isBool {
		if bSym {
			if in.ex.decide(in, in.ts.Cmp(OpEq, bx, in.ts.Const(0, w)), "divzero") {
				in.goPanic("integer divide by zero")
			}
		} else if b.c == 0 {
			in.goPanic("integer divide by zero")
		}
	}
	if !aSym && !bSym {
		x, y := a.c, b.c
		if isBool {
			switch op {
			case token.EQL:
				return b2v(x == y)
			case token.NEQ:
				return b2v(x != y)
			}
		}
		m := mask(w)
		switch op {
		case token.ADD:
			return Val{c: (x + y) & m}
		case token.SUB:
			return Val{c: (x - y) & m}
		case token.MUL:
			return Val{c: (x * y) & m}
		case token.QUO:
			if signed {
				return Val{c: evalBin(OpSDiv, x, y, w)}
			}
			return Val{c: x / y}
		case token.REM:
			if signed {
				return Val{c: evalBin(OpSRem, x, y, w)}
			}
			return Val{c: x % y}
		case token.AND:
			return Val{c: x & y}
		case token.OR:
			return Val{c: x | y}
		case token.XOR:
			return Val{c: x ^ y}
		case token.AND_NOT:
			return Val{c: x &^ y}
		case token.SHL:
			if y >= uint64(w) {
				return Val{}
			}
			return Val{c: (x << y) & m}
		case token.SHR:
			if signed {
				return Val{c: evalBin(OpAShr, x, minU(y, uint64(w)), w)}
			}
			if y >= uint64(w) {
				return Val{}
			}
			return Val{c: x >> y}
		case token.EQL:
			return b2v(x == y)
		case token.NEQ:
			return b2v(x != y)
		case token.LSS:
			if signed {
				return b2v(sext(x, w) < sext(y, w))
			}
			return b2v(x < y)
		case token.LEQ:
			if signed {
				return b2v(sext(x, w) <= sext(y, w))
			}
			return b2v(x <= y)
		case token.GTR:
			if signed {
				return b2v(sext(x, w) > sext(y, w))
			}
			return b2v(x > y)
		case token.GEQ:
			if signed {
				return b2v(sext(x, w) >= sext(y, w))
			}
			return b2v(x >= y)
		}
		in.end("unsupported", "int op %s", op)
	}
	// symbolic
	ts := in.ts
	if isBool {
		at, bt := in.toTerm(a, 0), in.toTerm(b, 0)
		r := ts.Cmp(OpEq, at, bt)
		if op == token.NEQ {
			r = ts.BNot(r)
		} else if op != token.EQL {
			in.end("unsupported", "bool op %s", op)
		}
		return in.fromTerm(r, ta)
	}
	at := in.toTerm(a, w)
	var bt *Term
	if isShift {
		wb := bitsOf(tb)
		bt0 := in.toTerm(b, wb)
		switch {
		case wb == w:
			bt = bt0
		case wb < w:
			bt = ts.ZExt(bt0, w)
		default:
			// saturate
			bt = ts.Ite(ts.Cmp(OpUlt, bt0, ts.Const(uint64(w), wb)), ts.Extract(bt0, w-1, 0), ts.Const(uint64(w), w))
		}
	} else {
		bt = in.toTerm(b, w)
	}
	var r *Term
	switch op {
	case token.ADD:
		r = ts.Bin(OpAdd, at, bt)
	case token.SUB:
		r = ts.Bin(OpSub, at, bt)
	case token.MUL:
		r = ts.Bin(OpMul, at, bt)
	case token.QUO:
		if signed {
			r = ts.Bin(OpSDiv, at, bt)
		} else {
			r = ts.Bin(OpUDiv, at, bt)
		}
	case token.REM:
		if signed {
			r = ts.Bin(OpSRem, at, bt)
		} else {
			r = ts.Bin(OpURem, at, bt)
		}
	case token.AND:
		r = ts.Bin(OpAnd, at, bt)
	case token.OR:
		r = ts.Bin(OpOr, at, bt)
	case token.XOR:
		r = ts.Bin(OpXor, at, bt)
	case token.AND_NOT:
		r = ts.Bin(OpAnd, at, ts.Not(bt))
	case token.SHL:
		r = ts.Bin(OpShl, at, bt)
	case token.SHR:
		if signed {
			r = ts.Bin(OpAShr, at, bt)
		} else {
			r = ts.Bin(OpLShr, at, bt)
		}
	case token.EQL:
		r = ts.Cmp(OpEq, at, bt)
	case token.NEQ:
		r = ts.BNot(ts.Cmp(OpEq, at, bt))
	case token.LSS:
		if signed {
			r = ts.Cmp(OpSlt, at, bt)
		} else {
			r = ts.Cmp(OpUlt, at, bt)
		}
	case token.LEQ:
		if signed {
			r = ts.Cmp(OpSle, at, bt)
		} else {
			r = ts.Cmp(OpUle, at, bt)
		}
	case token.GTR:
		if signed {
			r = ts.Cmp(OpSlt, bt, at)
		} else {
			r = ts.Cmp(OpUlt, bt, at)
		}
	case token.GEQ:
		if signed {
			r = ts.Cmp(OpSle, bt, at)
		} else {
			r = ts.Cmp(OpUle, bt, at)
		}
	default:
		in.end("unsupported", "int op %s", op)
	}
	if r.op == OpConst || r.op == OpBool {
		return Val{c: r.k}
	}
	return Val{x: r}
}

var concShift = true

func minU(a, b uint64) uint64 {
	if a < b {
		return a
	}
	return b
}

// ptrArith: uintptr(pointer) +/- integer.
func (in *Interp) ptrArith(op token.Token, p *Pointer, d Val, td types.Type) Val {
	if op != token.ADD && op != token.SUB {
		in.end("unsupported", "pointer arithmetic %s", op)
	}
	np := *p
	switch t := d.x.(type) {
	case nil:
		k := int64(d.c)
		if op == token.SUB {
			k = -k
		}
		np.off += k
		return Val{x: &np}
	case *Term:
		if op == token.SUB || p.idx != nil {
			in.end("unsupported", "symbolic pointer arithmetic")
		}
		idx, stride := in.factorStride(t)
		np.idx = idx
		np.stride = stride
		np.n = (in.heap.rd(p.obj).size - p.off) / stride
		return Val{x: &np}
	}
	in.end("unsupported", "pointer arithmetic with %T", d.x)
	return Val{}
}

// factorStride splits t = idx * stride (64-bit).
func (in *Interp) factorStride(t *Term) (*Term, int64) {
	ts := in.ts
	t64 := ts.ZExt(t, 64)
	x := t
	for x.op == OpZExt {
		x = x.a
	}
	// shl by constant is represented as concat(extract(y), 0_k)
	if x.op == OpConcat && x.b.op == OpConst && x.b.k == 0 {
		k := x.b.w
		return ts.ZExt(x.a, 64), int64(1) << k
	}
	if x.op == OpMul && x.b.op == OpConst {
		return ts.ZExt(x.a, 64), int64(x.b.k)
	}
	return t64, 1
}

func (in *Interp) convert(v Val, from, to types.Type) Val {
	if _, ok := v.x.(*Poison); ok {
		return v
	}
	kf, kt := kindOf(from), kindOf(to)
	switch {
	case kf == kScalar && kt == kScalar:
		if _, isP := v.x.(*Pointer); isP {
			return v // uintptr carrying a pointer
		}
		wf, wt := bitsOf(from), bitsOf(to)
		if t, ok := v.x.(*Term); ok {
			var r *Term
			switch {
			case wt == wf:
				r = t
			case wt < wf:
				r = in.ts.Extract(t, wt-1, 0)
			case isSigned(from):
				r = in.ts.SExt(t, wt)
			default:
				r = in.ts.ZExt(t, wt)
			}
			return in.fromTerm(r, to)
		}
		c := v.c
		if wt > wf && isSigned(from) {
			c = uint64(sext(c, wf))
		}
		return Val{c: c & mask(wt)}
	case kf == kPtr && kt == kPtr:
		return v
	case kf == kPtr && kt == kScalar: // unsafe.Pointer -> uintptr
		return v
	case kf == kScalar && kt == kPtr: // uintptr -> unsafe.Pointer
		if _, ok := v.x.(*Pointer); ok {
			return v
		}
		if v.x == nil && v.c == 0 {
			return Val{}
		}
		in.end("unsupported", "integer to pointer conversion")
	case kf == kSlice && kt == kString, kf == kString && kt == kSlice:
		sv, _ := v.x.(*SliceV)
		if sv == nil {
			return Val{}
		}
		// only byte slices
		if kf == kSlice {
			if b, ok := from.Underlying().(*types.Slice).Elem().Underlying().(*types.Basic); !ok || b.Kind() != types.Uint8 {
				return in.runesToString(sv)
			}
		} else {
			if b, ok := to.Underlying().(*types.Slice).Elem().Underlying().(*types.Basic); !ok || b.Kind() != types.Uint8 {
				in.end("unsupported", "string to []rune")
			}
		}
		o := in.heap.NewObject(sv.len, "conv")
		copyRange(o, 0, in.heap.rd(sv.obj), sv.off, sv.len)
		return Val{x: &SliceV{obj: o, len: sv.len, cap: sv.len}}
	case kf == kString && kt == kString, kf == kSlice && kt == kSlice:
		return v
	case kf == kScalar && kt == kString:
		if v.x != nil {
			in.end("unsupported", "symbolic rune to string")
		}
		s := string(rune(sext(v.c, bitsOf(from))))
		o := in.heap.NewObject(int64(len(s)), "runestr")
		copy(o.b, s)
		return Val{x: &SliceV{obj: o, len: int64(len(s)), cap: int64(len(s))}}
	case kf == kSlice && kt == kPtr: // slice to array pointer (via Convert in older ssa)
		sv, _ := v.x.(*SliceV)
		if sv == nil {
			return Val{}
		}
		return Val{x: &Pointer{obj: sv.obj, off: sv.off}}
	case kf == kFloat || kt == kFloat:
		return Val{x: &Poison{"float conversion"}}
	}
	in.end("unsupported", "convert %s -> %s in %s", from, to, in.where())
	return Val{}
}

// runesToString converts []rune to a UTF-8 string; runes may be symbolic bytes
// zero-extended (Latin-1 conversion in gzip): each rune < 0x100 handled symbolically.
func (in *Interp) runesToString(sv *SliceV) Val {
	o := in.heap.rd(sv.obj)
	var out []Val
	for i := int64(0); i < sv.len; i++ {
		r, err := o.loadScalar(in.ts, sv.off+4*i, 4)
		if err != nil {
			in.end("unsupported", "rune load: %v", err)
		}
		if t, ok := r.x.(*Term); ok {
			// split: < 0x80 one byte; else must be < 0x800 two bytes
			lt80 := in.ex.decide(in, in.ts.Cmp(OpUlt, t, in.ts.Const(0x80, 32)), "rune<0x80")
			if lt80 {
				out = append(out, Val{x: in.ts.Extract(t, 7, 0)})
				continue
			}
			if !in.ex.decide(in, in.ts.Cmp(OpUlt, t, in.ts.Const(0x800, 32)), "rune<0x800") {
				in.end("unsupported", "symbolic rune >= 0x800")
			}
			b0 := in.ts.Bin(OpOr, in.ts.Const(0xC0, 8), in.ts.Extract(in.ts.Bin(OpLShr, t, in.ts.Const(6, 32)), 7, 0))
			b1 := in.ts.Bin(OpOr, in.ts.Const(0x80, 8), in.ts.Bin(OpAnd, in.ts.Extract(t, 7, 0), in.ts.Const(0x3F, 8)))
			out = append(out, Val{x: b0}, Val{x: b1})
			continue
		}
		var buf [4]byte
		n := utf8.EncodeRune(buf[:], rune(int32(r.c)))
		for k := 0; k < n; k++ {
			out = append(out, Val{c: uint64(buf[k])})
		}
	}
	no := in.heap.NewObject(int64(len(out)), "runes2str")
	for i, b := range out {
		if t, ok := b.x.(*Term); ok && t.op != OpConst {
			no.storeScalar(int64(i), 1, b)
		} else if ok {
			no.b[i] = byte(t.k)
		} else {
			no.b[i] = byte(b.c)
		}
	}
	return Val{x: &SliceV{obj: no, len: int64(len(out)), cap: int64(len(out))}}
}

// boundsCheck forks on idx < n (unsigned view of a signed index catches negatives).
func (in *Interp) boundsCheck(idx Val, it types.Type, n int64, what string) (int64, *Term) {
	w := bitsOf(it)
	if t, ok := idx.x.(*Term); ok {
		var t64 *Term
		if isSigned(it) {
			t64 = in.ts.SExt(t, 64)
		} else {
			t64 = in.ts.ZExt(t, 64)
		}
		inb := in.ts.Cmp(OpUlt, t64, in.ts.Const(uint64(n), 64))
		if !in.ex.decide(in, inb, "bounds") {
			in.goPanic(fmt.Sprintf("index out of range (%s, len %d)", what, n))
		}
		return 0, t64
	}
	if _, ok := idx.x.(*Poison); ok {
		in.end("unsupported", "poison index")
	}
	var i int64
	if isSigned(it) {
		i = sext(idx.c, w)
	} else {
		i = int64(idx.c)
		if idx.c > 1<<62 {
			i = -1
		}
	}
	if i < 0 || i >= n {
		in.goPanic(fmt.Sprintf("index out of range [%d] with length %d (%s)", i, n, what))
	}
	return i, nil
}

func (in *Interp) indexAddr(x *ssa.IndexAddr, base, idx Val) Val {
	var obj *Object
	var off, n, esz int64
	switch bt := x.X.Type().Underlying().(type) {
	case *types.Slice:
		sv, _ := base.x.(*SliceV)
		if sv == nil {
			if _, ok := base.x.(*Poison); ok {
				in.end("unsupported", "index of poison slice in %s", in.where())
			}
			n = 0
			esz = sizeof(bt.Elem())
		} else {
			obj, off, n, esz = sv.obj, sv.off, sv.len, sizeof(bt.Elem())
		}
	case *types.Pointer:
		at := bt.Elem().Underlying().(*types.Array)
		p := in.ptrOf(base, "index")
		if p.idx != nil {
			in.end("unsupported", "nested symbolic index")
		}
		obj, off, n, esz = p.obj, p.off, at.Len(), sizeof(at.Elem())
	default:
		in.end("unsupported", "IndexAddr on %s", x.X.Type())
	}
	i, sym := in.boundsCheck(idx, x.Index.Type(), n, "IndexAddr")
	if sym != nil {
		if kv, ok := in.ex.known[sym]; ok {
			return Val{x: &Pointer{obj: obj, off: off + int64(kv)*esz}}
		}
		if n > 40000 || kindOf(x.Type().Underlying().(*types.Pointer).Elem()) != kScalar {
			k := int64(in.ex.concretize(in, sym, "index into large array"))
			return Val{x: &Pointer{obj: obj, off: off + k*esz}}
		}
		return Val{x: &Pointer{obj: obj, off: off, idx: sym, stride: esz, n: n}}
	}
	return Val{x: &Pointer{obj: obj, off: off + i*esz}}
}

func (in *Interp) indexVal(x *ssa.Index, agg, idx Val) Val {
	switch at := x.X.Type().Underlying().(type) {
	case *types.Array:
		esz := sizeof(at.Elem())
		blob, _ := agg.x.(*Object)
		if blob == nil {
			if agg.x != nil {
				return in.poisonOr(agg, "index of %T", agg.x)
			}
			in.boundsCheck(idx, x.Index.Type(), at.Len(), "Index")
			return Val{}
		}
		i, sym := in.boundsCheck(idx, x.Index.Type(), at.Len(), "Index")
		if sym != nil {
			return in.symLoad(&Pointer{obj: blob, idx: sym, stride: esz, n: at.Len()}, at.Elem())
		}
		v, err := in.loadRaw(blob, i*esz, at.Elem())
		if err != nil {
			in.memFault(err)
		}
		return v
	case *types.Basic: // string
		sv, _ := agg.x.(*SliceV)
		n := int64(0)
		if sv != nil {
			n = sv.len
		}
		i, sym := in.boundsCheck(idx, x.Index.Type(), n, "string index")
		if sym != nil {
			return in.symLoad(&Pointer{obj: sv.obj, off: sv.off, idx: sym, stride: 1, n: n}, types.Typ[types.Uint8])
		}
		v, err := in.load(sv.obj, sv.off+i, types.Typ[types.Uint8])
		if err != nil {
			in.memFault(err)
		}
		return v
	}
	in.end("unsupported", "Index on %s", x.X.Type())
	return Val{}
}

func (in *Interp) lookup(x *ssa.Lookup, m, k Val) Val {
	if kindOf(x.X.Type()) == kString {
		sv, _ := m.x.(*SliceV)
		n := int64(0)
		if sv != nil {
			n = sv.len
		}
		i, sym := in.boundsCheck(k, x.Index.Type(), n, "string index")
		if sym != nil {
			return in.symLoad(&Pointer{obj: sv.obj, off: sv.off, idx: sym, stride: 1, n: n}, types.Typ[types.Uint8])
		}
		v, err := in.load(sv.obj, sv.off+i, types.Typ[types.Uint8])
		if err != nil {
			in.memFault(err)
		}
		return v
	}
	if in.initMode {
		return Val{x: &Poison{"map lookup"}}
	}
	in.end("unsupported", "map lookup in %s", in.where())
	return Val{}
}

// symLoad reads an element at a symbolic index: constant tables become LUTs,
// anything else an ite chain.
func (in *Interp) symLoad(p *Pointer, t types.Type) Val {
	if kindOf(t) != kScalar {
		in.end("unsupported", "symbolic-index load of %s in %s", t, in.where())
	}
	o := in.heap.rd(p.obj)
	sz := sizeof(t)
	w := uint16(sz * 8)
	n := p.n
	if n <= 0 {
		in.goPanic("symbolic index into empty range")
	}
	if n > 1<<17 {
		in.end("unsupported", "symbolic index over %d elements", n)
	}
	// clamp to allocation
	for n > 0 && p.off+(n-1)*p.stride+sz > o.size {
		n--
	}
	if n < p.n {
		// some index values would leave the allocation: fork
		inb := in.ts.Cmp(OpUlt, p.idx, in.ts.Const(uint64(n), 64))
		if !in.ex.decide(in, inb, "unsafe-extent") {
			in.end("panic", "unsafe memory access: symbolic load outside allocation %s @ %s", o, in.where())
		}
	}
	allConc := len(o.stores) == 0
	vals := make([]uint64, n)
	if allConc {
		for k := int64(0); k < n; k++ {
			off := p.off + k*p.stride
			if o.nfl != 0 {
				for j := off; j < off+sz; j++ {
					if o.fl[j] != flConc {
						allConc = false
						break
					}
				}
				if !allConc {
					break
				}
			}
			var v uint64
			for j := sz - 1; j >= 0; j-- {
				v = v<<8 | uint64(o.b[off+j])
			}
			vals[k] = v
		}
	}
	if allConc {
		r := in.ts.LutTerm(vals, w, p.idx)
		return in.fromTerm(r, t)
	}
	if n > 4096 {
		// a table whose cells all hold the same value reads as that value
		first, err := in.load(o, p.off, t)
		if err != nil {
			in.memFault(err)
		}
		same := true
		for k := int64(1); k < n && same; k++ {
			v, err := in.load(o, p.off+k*p.stride, t)
			if err != nil {
				in.memFault(err)
			}
			same = v.c == first.c && v.x == first.x
		}
		if same {
			return first
		}
		in.end("unsupported", "symbolic index over %d non-constant elements in %s", n, in.where())
	}
	// ite chain (last element as default)
	var acc *Term
	for k := n - 1; k >= 0; k-- {
		v, err := in.load(o, p.off+k*p.stride, t)
		if err != nil {
			in.memFault(err)
		}
		vt := in.toTerm(v, w)
		if isBoolT(t) && vt.w == 0 {
			vt = in.boolToByte(vt)
		}
		if acc == nil {
			acc = vt
		} else {
			acc = in.ts.Ite(in.ts.Cmp(OpEq, p.idx, in.ts.Const(uint64(k), 64)), vt, acc)
		}
	}
	return in.fromTerm(acc, t)
}

func (in *Interp) symStore(p *Pointer, t types.Type, v Val) {
	if kindOf(t) != kScalar {
		in.end("unsupported", "symbolic-index store of %s in %s", t, in.where())
	}
	if in.ex != nil && in.ex.phase != 0 && in.ex.inOnce == 0 {
		in.ex.fpW[in.ex.phase][in.heap.rd(p.obj)] = in.curFn()
	}
	o := in.heap.wr(p.obj)
	sz := sizeof(t)
	n := p.n
	for n > 0 && p.off+(n-1)*p.stride+sz > o.size {
		n--
	}
	if n < p.n {
		inb := in.ts.Cmp(OpUlt, p.idx, in.ts.Const(uint64(n), 64))
		if !in.ex.decide(in, inb, "unsafe-extent") {
			in.end("panic", "unsafe memory access: symbolic store outside allocation %s @ %s", o, in.where())
		}
	}
	vt := in.toTerm(v, uint16(sz*8))
	if vt.w == 0 {
		vt = in.boolToByte(vt)
	}
	if n <= 64 {
		// small: materialise directly
		for k := int64(0); k < n; k++ {
			off := p.off + k*p.stride
			old, err := in.load(o, off, t)
			if err != nil {
				in.memFault(err)
			}
			ot := in.toTerm(old, uint16(sz*8))
			if ot.w == 0 {
				ot = in.boolToByte(ot)
			}
			nv := in.ts.Ite(in.ts.Cmp(OpEq, p.idx, in.ts.Const(uint64(k), 64)), vt, ot)
			var sv Val
			if nv.op == OpConst {
				sv = Val{c: nv.k}
			} else {
				sv = Val{x: nv}
			}
			if err := o.storeScalar(off, sz, sv); err != nil {
				in.memFault(err)
			}
		}
		return
	}
	o.stores = append(o.stores, symStore{base: p.off, stride: p.stride, n: n, idx: p.idx, w: sz, val: vt})
}

func (in *Interp) slice(x *ssa.Slice, fr *Frame, ci *cinstr) Val {
	base := in.get(fr, ci.ops[0])
	var obj *Object
	var off, ln, cp, esz int64
	isStr := false
	switch bt := x.X.Type().Underlying().(type) {
	case *types.Slice:
		sv, _ := base.x.(*SliceV)
		if sv != nil {
			obj, off, ln, cp = sv.obj, sv.off, sv.len, sv.cap
		} else if base.x != nil {
			return in.poisonOr(base, "slice of %T", base.x)
		}
		esz = sizeof(bt.Elem())
	case *types.Basic:
		sv, _ := base.x.(*SliceV)
		if sv != nil {
			obj, off, ln, cp = sv.obj, sv.off, sv.len, sv.len
		}
		esz = 1
		isStr = true
	case *types.Pointer:
		at := bt.Elem().Underlying().(*types.Array)
		p := in.ptrOf(base, "slice of array")
		obj, off, ln, cp = p.obj, p.off, at.Len(), at.Len()
		esz = sizeof(at.Elem())
	default:
		in.end("unsupported", "Slice on %s", x.X.Type())
	}
	lo, hi, mx := int64(0), ln, cp
	k := 1
	if x.Low != nil {
		lo = in.concInt(in.get(fr, ci.ops[k]), x.Low.Type(), "slice low")
	}
	k++
	if x.High != nil {
		hi = in.concInt(in.get(fr, ci.ops[k]), x.High.Type(), "slice high")
	}
	k++
	if x.Max != nil {
		mx = in.concInt(in.get(fr, ci.ops[k]), x.Max.Type(), "slice max")
	}
	limit := cp
	if isStr {
		limit = ln
	}
	if lo < 0 || hi < lo || hi > limit || mx < hi || mx > cp {
		in.goPanic(fmt.Sprintf("slice bounds out of range [%d:%d:%d] with capacity %d", lo, hi, mx, cp))
	}
	if obj == nil {
		return Val{}
	}
	return Val{x: &SliceV{obj: obj, off: off + lo*esz, len: hi - lo, cap: mx - lo}}
}

type rangeIter struct {
	str *SliceV
	pos int64
}

func (in *Interp) rangeInit(x *ssa.Range, v Val) Val {
	if kindOf(x.X.Type()) != kString {
		if in.initMode {
			return Val{x: &Poison{"map range"}}
		}
		in.end("unsupported", "range over map in %s", in.where())
	}
	sv, _ := v.x.(*SliceV)
	return Val{x: &rangeIter{str: sv}}
}

func (in *Interp) next(x *ssa.Next, fr *Frame, ci *cinstr) Val {
	itv := in.get(fr, ci.ops[0])
	it, ok := itv.x.(*rangeIter)
	if !ok {
		return in.poisonOr(itv, "next on %T", itv.x)
	}
	if it.str == nil || it.pos >= it.str.len {
		return Val{x: Tuple{Val{c: 0}, Val{}, Val{}}}
	}
	o := in.heap.rd(it.str.obj)
	b0, err := o.loadScalar(in.ts, it.str.off+it.pos, 1)
	if err != nil {
		in.memFault(err)
	}
	pos := it.pos
	if t, ok := b0.x.(*Term); ok {
		// ASCII or not
		if in.ex.decide(in, in.ts.Cmp(OpUlt, t, in.ts.Const(0x80, 8)), "utf8-ascii") {
			it.pos++
			return Val{x: Tuple{Val{c: 1}, Val{c: uint64(pos)}, Val{x: in.ts.ZExt(t, 32)}}}
		}
		// two-byte sequence 110xxxxx 10xxxxxx with value >= 0x80
		if it.pos+1 < it.str.len {
			b1, _ := o.loadScalar(in.ts, it.str.off+it.pos+1, 1)
			t1 := in.toTerm(b1, 8)
			okLead := in.ts.BAnd(in.ts.Cmp(OpUle, in.ts.Const(0xC2, 8), t), in.ts.Cmp(OpUle, t, in.ts.Const(0xDF, 8)))
			okCont := in.ts.Cmp(OpEq, in.ts.Bin(OpAnd, t1, in.ts.Const(0xC0, 8)), in.ts.Const(0x80, 8))
			if in.ex.decide(in, in.ts.BAnd(okLead, okCont), "utf8-2byte") {
				r := in.ts.Bin(OpOr,
					in.ts.Bin(OpShl, in.ts.ZExt(in.ts.Bin(OpAnd, t, in.ts.Const(0x1F, 8)), 32), in.ts.Const(6, 32)),
					in.ts.ZExt(in.ts.Bin(OpAnd, t1, in.ts.Const(0x3F, 8)), 32))
				it.pos += 2
				return Val{x: Tuple{Val{c: 1}, Val{c: uint64(pos)}, Val{x: r}}}
			}
		}
		// lead bytes that can never start a valid sequence, or a 2-byte lead with a bad
		// continuation: RuneError, width 1
		never := in.ts.BOr(in.ts.Cmp(OpUlt, t, in.ts.Const(0xC2, 8)), in.ts.Cmp(OpUlt, in.ts.Const(0xF4, 8), t))
		twoLead := in.ts.BAnd(in.ts.Cmp(OpUle, in.ts.Const(0xC2, 8), t), in.ts.Cmp(OpUle, t, in.ts.Const(0xDF, 8)))
		if in.ex.decide(in, in.ts.BOr(never, twoLead), "utf8-invalid") {
			it.pos++
			return Val{x: Tuple{Val{c: 1}, Val{c: uint64(pos)}, Val{c: 0xFFFD}}}
		}
		// 3/4-byte sequences are not modelled: restrict the claim
		in.end("assume", "symbolic 3/4-byte UTF-8 sequence not modelled")
	}
	// concrete lead byte: need the whole rune concrete
	var buf []byte
	for k := int64(0); k < 4 && it.pos+k < it.str.len; k++ {
		b, _ := o.loadScalar(in.ts, it.str.off+it.pos+k, 1)
		if b.x != nil {
			if k == 0 || !utf8.RuneStart(byte(b0.c)) || b0.c < 0x80 {
				break
			}
			in.end("unsupported", "mixed concrete/symbolic UTF-8 sequence")
		}
		buf = append(buf, byte(b.c))
	}
	r, size := utf8.DecodeRune(buf)
	it.pos += int64(size)
	return Val{x: Tuple{Val{c: 1}, Val{c: uint64(pos)}, Val{c: uint64(uint32(r))}}}
}

func (in *Interp) typeAssert(x *ssa.TypeAssert, v Val) Val {
	if _, ok := v.x.(*Poison); ok {
		return v
	}
	ifc, _ := v.x.(*Iface)
	ok := false
	var res Val
	if ifc != nil {
		if types.IsInterface(x.AssertedType) {
			if it, isI := x.AssertedType.Underlying().(*types.Interface); isI {
				ok = types.Implements(ifc.typ, it)
			}
			if ok {
				res = v
			}
		} else {
			ok = types.Identical(ifc.typ, x.AssertedType)
			if ok {
				res = ifc.val
			}
		}
	}
	if x.CommaOk {
		return Val{x: Tuple{res, b2v(ok)}}
	}
	if !ok {
		in.goPanic(fmt.Sprintf("interface conversion: not %s", x.AssertedType))
	}
	return res
}

func (in *Interp) prepCall(fr *Frame, ci *cinstr, cc *ssa.CallCommon) (Val, []Val) {
	fv := in.get(fr, ci.ops[0])
	args := make([]Val, len(ci.ops)-1)
	for k := 1; k < len(ci.ops); k++ {
		args[k-1] = in.get(fr, ci.ops[k])
	}
	if cc.IsInvoke() {
		recv := fv
		if _, ok := recv.x.(*Poison); ok {
			in.end("unsupported", "method call on poison (%s) in %s", recv.x.(*Poison).why, in.where())
		}
		ifc, _ := recv.x.(*Iface)
		if ifc == nil {
			in.goPanic("nil interface method call " + cc.Method.Name())
		}
		ms := in.prog.prog.MethodSets.MethodSet(ifc.typ)
		sel := ms.Lookup(cc.Method.Pkg(), cc.Method.Name())
		if sel == nil {
			in.end("unsupported", "method %s not found on %s", cc.Method.Name(), ifc.typ)
		}
		fn := in.prog.prog.MethodValue(sel)
		if fn == nil {
			in.end("unsupported", "no method value %s on %s", cc.Method.Name(), ifc.typ)
		}
		return Val{x: fn}, append([]Val{ifc.val}, args...)
	}
	return fv, args
}

func (in *Interp) doCall(fr *Frame, ci *cinstr, cc *ssa.CallCommon) Val {
	fv, args := in.prepCall(fr, ci, cc)
	return in.callValue(fv, args, cc)
}

func (in *Interp) builtin(b *ssa.Builtin, args []Val, cc *ssa.CallCommon) Val {
	switch b.Name() {
	case "len", "cap":
		if len(args) == 1 {
			switch a := args[0].x.(type) {
			case nil:
				// nil slice/string, or array pointer type
				if cc != nil {
					if pt, ok := cc.Args[0].Type().Underlying().(*types.Pointer); ok {
						return Val{c: uint64(pt.Elem().Underlying().(*types.Array).Len())}
					}
					if at, ok := cc.Args[0].Type().Underlying().(*types.Array); ok {
						return Val{c: uint64(at.Len())}
					}
				}
				return Val{}
			case *SliceV:
				if b.Name() == "len" {
					return Val{c: uint64(a.len)}
				}
				return Val{c: uint64(a.cap)}
			case *Pointer:
				pt := cc.Args[0].Type().Underlying().(*types.Pointer)
				return Val{c: uint64(pt.Elem().Underlying().(*types.Array).Len())}
			case *Object:
				if at, ok := cc.Args[0].Type().Underlying().(*types.Array); ok {
					return Val{c: uint64(at.Len())}
				}
			case *Poison:
				return args[0]
			}
		}
	case "copy":
		dst, _ := args[0].x.(*SliceV)
		src, _ := args[1].x.(*SliceV)
		if dst == nil || src == nil {
			return Val{}
		}
		esz := int64(1)
		if st, ok := cc.Args[0].Type().Underlying().(*types.Slice); ok {
			esz = sizeof(st.Elem())
		}
		n := dst.len
		if src.len < n {
			n = src.len
		}
		if n == 0 {
			return Val{}
		}
		so := in.heap.rd(src.obj)
		if len(so.stores) > 0 {
			if err := in.materializeStores(in.heap.wr(src.obj)); err != nil {
				in.memFault(err)
			}
			so = in.heap.rd(src.obj)
		}
		do := in.heap.wr(dst.obj)
		if do.ro {
			in.end("unsupported", "copy into read-only object")
		}
		if len(do.stores) > 0 {
			if err := in.materializeStores(do); err != nil {
				in.memFault(err)
			}
		}
		if in.ex != nil && in.ex.phase != 0 && in.ex.inOnce == 0 {
			in.ex.fpW[in.ex.phase][in.heap.rd(dst.obj)] = in.curFn()
			if !src.obj.shared {
				in.ex.fpR[in.ex.phase][in.heap.rd(src.obj)] = in.curFn()
			}
			if dst.obj.shared {
				in.ex.events = append(in.ex.events, Event{Kind: "assert", Label: "C17:write-to-package-level-state", Origin: in.curFn(), Msg: dst.obj.name})
				in.end("violation", "copy into shared state %s", dst.obj.name)
			}
		}
		if so.id == do.id && so != do {
			so = do
		}
		copyRange(do, dst.off, so, src.off, n*esz)
		return Val{c: uint64(n)}
	case "append":
		return in.appendB(args, cc)
	case "print", "println":
		return Val{}
	case "min", "max":
		if len(args) == 2 {
			t := cc.Args[0].Type()
			lt := in.intBinop(token.LSS, args[0], args[1], t, t)
			if lt.x != nil {
				c := lt.x.(*Term)
				w := bitsOf(t)
				a, bb := in.toTerm(args[0], w), in.toTerm(args[1], w)
				if b.Name() == "min" {
					return Val{x: in.ts.Ite(c, a, bb)}
				}
				return Val{x: in.ts.Ite(c, bb, a)}
			}
			if (lt.c != 0) == (b.Name() == "min") {
				return args[0]
			}
			return args[1]
		}
	case "ssa:wrapnilchk":
		if args[0].x == nil {
			in.goPanic("nil receiver in wrapper")
		}
		return args[0]
	case "clear":
		if sv, ok := args[0].x.(*SliceV); ok && sv != nil {
			esz := sizeof(cc.Args[0].Type().Underlying().(*types.Slice).Elem())
			in.heap.wr(sv.obj).zeroRange(sv.off, sv.len*esz)
		}
		return Val{}
	}
	in.end("unsupported", "builtin %s in %s", b.Name(), in.where())
	return Val{}
}

func (in *Interp) appendB(args []Val, cc *ssa.CallCommon) Val {
	st := cc.Args[0].Type().Underlying().(*types.Slice)
	esz := sizeof(st.Elem())
	dst, _ := args[0].x.(*SliceV)
	src, _ := args[1].x.(*SliceV)
	if _, ok := args[0].x.(*Poison); ok {
		return args[0]
	}
	if src == nil || src.len == 0 {
		return args[0]
	}
	var dl, dc int64
	if dst != nil {
		dl, dc = dst.len, dst.cap
	}
	nl := dl + src.len
	if nl <= dc {
		do := in.heap.wr(dst.obj)
		if in.ex != nil && in.ex.phase != 0 && in.ex.inOnce == 0 {
			in.ex.fpW[in.ex.phase][in.heap.rd(dst.obj)] = in.curFn()
		}
		so := in.heap.rd(src.obj)
		if so.id == do.id {
			so = do
		}
		copyRange(do, dst.off+dl*esz, so, src.off, src.len*esz)
		return Val{x: &SliceV{obj: dst.obj, off: dst.off, len: nl, cap: dc}}
	}
	// grow: capacity as the runtime would roughly do (doubling); harnesses must not depend on cap
	nc := dc * 2
	if nc < nl {
		nc = nl
	}
	if nc < 8 {
		nc = 8
	}
	o := in.heap.NewObject(nc*esz, "append")
	if dst != nil && dl > 0 {
		copyRange(o, 0, in.heap.rd(dst.obj), dst.off, dl*esz)
	}
	copyRange(o, dl*esz, in.heap.rd(src.obj), src.off, src.len*esz)
	return Val{x: &SliceV{obj: o, off: 0, len: nl, cap: nc}}
}
