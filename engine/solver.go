package main

// Long-lived SMT solver process (z3 -in) with push/pop per path.

import (
	"bufio"
	"os"
	"fmt"
	"io"
	"os/exec"
	"strconv"
	"strings"
	"time"
)

type Solver struct {
	cmd     *exec.Cmd
	in      io.WriteCloser
	out     *bufio.Reader
	bin     string
	args    []string
	log     []string // text emitted since the last push (for re-play after pop)
	lutDone map[string]string
	nLut    int
	ufDone  map[string]bool
	stats   *Stats
	timeout int // ms
	trace   io.Writer
	dead    bool
	base    []string // definitions made at the base level (LUTs, UFs)
	retryMs int
	scope   []string // assertions of the innermost query scope (for fresh retries)
}

type Stats struct {
	Sat, Unsat, Unknown, Errors int
	SolverSec                   float64
	Queries                     int
}

func NewSolver(bin string, args []string, timeoutMs int, st *Stats) (*Solver, error) {
	s := &Solver{bin: bin, args: args, lutDone: map[string]string{}, ufDone: map[string]bool{}, stats: st, timeout: timeoutMs}
	if err := s.start(); err != nil {
		return nil, err
	}
	return s, nil
}

func (s *Solver) start() error {
	s.cmd = exec.Command(s.bin, s.args...)
	in, err := s.cmd.StdinPipe()
	if err != nil {
		return err
	}
	out, err := s.cmd.StdoutPipe()
	if err != nil {
		return err
	}
	s.cmd.Stderr = s.cmd.Stdout
	if err := s.cmd.Start(); err != nil {
		return err
	}
	s.in = in
	s.out = bufio.NewReaderSize(out, 1<<16)
	s.lutDone = map[string]string{}
	s.ufDone = map[string]bool{}
	s.base = nil
	s.dead = false
	s.raw("(set-option :print-success false)")
	if strings.Contains(s.bin, "z3") {
		s.raw(fmt.Sprintf("(set-option :timeout %d)", s.timeout))
	}
	return nil
}

func (s *Solver) Close() {
	if s.cmd != nil && s.cmd.Process != nil {
		s.in.Close()
		s.cmd.Process.Kill()
		s.cmd.Wait()
	}
}

func (s *Solver) raw(str string) {
	if s.trace != nil {
		fmt.Fprintln(s.trace, str)
	}
	io.WriteString(s.in, str)
	io.WriteString(s.in, "\n")
}

// Emit sends text inside the current scope and remembers it.
func (s *Solver) Emit(str string) {
	s.log = append(s.log, str)
	s.raw(str)
}

func (s *Solver) Push() {
	s.log = s.log[:0]
	s.raw("(push 1)")
}

func (s *Solver) Pop() {
	s.raw("(pop 1)")
	s.log = s.log[:0]
}

// EnsureLut defines the table at the base level (pop, define, push, replay).
func (s *Solver) EnsureLut(l *Lut) string {
	if nm, ok := s.lutDone[l.hash]; ok {
		return nm
	}
	nm := fmt.Sprintf("lut%d", s.nLut)
	s.nLut++
	if l.defStr == "" {
		l.defStr = l.define("@NAME@")
	}
	saved := append([]string(nil), s.log...)
	s.raw("(pop 1)")
	def := strings.Replace(l.defStr, "@NAME@", nm, 1)
	s.base = append(s.base, def)
	s.raw(def)
	s.raw("(push 1)")
	for _, x := range saved {
		s.raw(x)
	}
	s.log = saved
	s.lutDone[l.hash] = nm
	return nm
}

func (s *Solver) EnsureUF(name, decl string) {
	if s.ufDone[name] {
		return
	}
	saved := append([]string(nil), s.log...)
	s.raw("(pop 1)")
	s.base = append(s.base, decl)
	s.raw(decl)
	s.raw("(push 1)")
	for _, x := range saved {
		s.raw(x)
	}
	s.log = saved
	s.ufDone[name] = true
}

func (s *Solver) readLine() (string, error) {
	line, err := s.out.ReadString('\n')
	return strings.TrimSpace(line), err
}

// CheckSat returns "sat", "unsat" or "unknown" (errors count as unknown).
func (s *Solver) CheckSat(extra string) string {
	t0 := time.Now()
	if extra != "" {
		s.raw("(push 1)")
		s.raw("(assert " + extra + ")")
	}
	s.raw("(check-sat)")
	res := "unknown"
	for {
		line, err := s.readLine()
		if err != nil {
			s.dead = true
			res = "unknown"
			s.stats.Errors++
			break
		}
		if line == "" {
			continue
		}
		if line == "sat" || line == "unsat" || line == "unknown" {
			res = line
			break
		}
		if strings.HasPrefix(line, "(error") {
			s.stats.Errors++
			if s.trace != nil {
				fmt.Fprintln(s.trace, "; SOLVER ERROR:", line)
			}
			lastSolverError = line
			// keep reading until the verdict arrives, but the verdict is not believed
			for {
				l2, err := s.readLine()
				if err != nil || l2 == "sat" || l2 == "unsat" || l2 == "unknown" {
					break
				}
			}
			res = "unknown"
			break
		}
	}
	if res == "unknown" && !s.dead && s.retryMs > 0 {
		if r2 := s.retryFresh(extra); r2 == "unsat" {
			// a fresh solver refuted it; sat answers are not adopted (no model in this process)
			res = "unsat"
		}
	}
	if extra != "" && !s.dead {
		if res != "sat" {
			s.raw("(pop 1)")
		}
		// when sat the caller may still want values; it must call PopExtra()
	}
	s.stats.Queries++
	s.stats.SolverSec += time.Since(t0).Seconds()
	switch res {
	case "sat":
		s.stats.Sat++
	case "unsat":
		s.stats.Unsat++
	default:
		s.stats.Unknown++
	}
	return res
}

var lastSolverError string

func (s *Solver) PopExtra() { s.raw("(pop 1)") }

// GetValues returns values of named constants after a sat answer.
func (s *Solver) GetValues(names []string) (map[string]uint64, error) {
	res := map[string]uint64{}
	if len(names) == 0 {
		return res, nil
	}
	s.raw("(get-value (" + strings.Join(names, " ") + "))")
	// read a balanced s-expression
	depth := 0
	var sb strings.Builder
	started := false
	for {
		line, err := s.out.ReadString('\n')
		if err != nil {
			s.dead = true
			return nil, err
		}
		for _, ch := range line {
			if ch == '(' {
				depth++
				started = true
			} else if ch == ')' {
				depth--
			}
		}
		sb.WriteString(line)
		if started && depth <= 0 {
			break
		}
	}
	txt := sb.String()
	if strings.Contains(txt, "(error") {
		return nil, fmt.Errorf("get-value: %s", txt)
	}
	// parse pairs (name value)
	toks := tokenize(txt)
	for i := 0; i+1 < len(toks); i++ {
		if toks[i] == "(" && i+3 < len(toks) && toks[i+1] != "(" {
			name := toks[i+1]
			val := toks[i+2]
			if v, ok := parseVal(val, toks, i+2); ok {
				res[name] = v
			}
		}
	}
	return res, nil
}

func tokenize(s string) []string {
	var toks []string
	cur := ""
	for _, ch := range s {
		switch ch {
		case '(', ')':
			if cur != "" {
				toks = append(toks, cur)
				cur = ""
			}
			toks = append(toks, string(ch))
		case ' ', '\n', '\t', '\r':
			if cur != "" {
				toks = append(toks, cur)
				cur = ""
			}
		default:
			cur += string(ch)
		}
	}
	if cur != "" {
		toks = append(toks, cur)
	}
	return toks
}

func parseVal(val string, toks []string, pos int) (uint64, bool) {
	switch {
	case val == "true":
		return 1, true
	case val == "false":
		return 0, true
	case strings.HasPrefix(val, "#x"):
		v, err := strconv.ParseUint(val[2:], 16, 64)
		return v, err == nil
	case strings.HasPrefix(val, "#b"):
		v, err := strconv.ParseUint(val[2:], 2, 64)
		return v, err == nil
	case val == "(" && pos+2 < len(toks) && toks[pos+1] == "_" && strings.HasPrefix(toks[pos+2], "bv"):
		v, err := strconv.ParseUint(toks[pos+2][2:], 10, 64)
		return v, err == nil
	}
	return 0, false
}

// ---- term emission ----

type Emitter struct {
	s     *Solver
	ts    *TermStore
	names map[*Term]string
	// decl log of variables so that they can be re-declared
}

func NewEmitter(s *Solver, ts *TermStore) *Emitter {
	return &Emitter{s: s, ts: ts, names: map[*Term]string{}}
}

// Name makes sure t is defined in the solver and returns its name/literal.
func (e *Emitter) Name(t *Term) string {
	if n, ok := e.names[t]; ok {
		return n
	}
	var n string
	switch t.op {
	case OpConst:
		n = constStr(t.k, t.w)
		e.names[t] = n
		return n
	case OpBool:
		if t.k == 1 {
			n = "true"
		} else {
			n = "false"
		}
		e.names[t] = n
		return n
	case OpVar:
		e.s.Emit(fmt.Sprintf("(declare-const %s %s)", t.name, sortStr(t.w)))
		e.names[t] = t.name
		return t.name
	}
	// iterative post-order to avoid deep recursion
	type frame struct {
		t     *Term
		state int
	}
	stack := []frame{{t, 0}}
	for len(stack) > 0 {
		f := &stack[len(stack)-1]
		if _, ok := e.names[f.t]; ok {
			stack = stack[:len(stack)-1]
			continue
		}
		if f.state == 0 {
			f.state = 1
			for _, c := range []*Term{f.t.a, f.t.b, f.t.c} {
				if c != nil {
					if _, ok := e.names[c]; !ok {
						if c.op == OpConst || c.op == OpBool || c.op == OpVar {
							e.Name(c)
						} else {
							stack = append(stack, frame{c, 0})
						}
					}
				}
			}
			continue
		}
		x := f.t
		stack = stack[:len(stack)-1]
		var expr string
		switch x.op {
		case OpExtract:
			expr = fmt.Sprintf("((_ extract %d %d) %s)", x.k>>16, x.k&0xffff, e.names[x.a])
		case OpZExt:
			expr = fmt.Sprintf("((_ zero_extend %d) %s)", x.w-x.a.w, e.names[x.a])
		case OpSExt:
			expr = fmt.Sprintf("((_ sign_extend %d) %s)", x.w-x.a.w, e.names[x.a])
		case OpLut:
			l := e.ts.luts[x.k]
			nm := e.s.EnsureLut(l)
			idx := e.names[x.a]
			if x.a.w != l.iw {
				panic("lut index width")
			}
			expr = fmt.Sprintf("(%s %s)", nm, idx)
		case OpUF:
			e.s.EnsureUF(x.name, e.ts.ufs[x.name])
			if x.b != nil {
				expr = fmt.Sprintf("(%s %s %s)", x.name, e.names[x.a], e.names[x.b])
			} else {
				expr = fmt.Sprintf("(%s %s)", x.name, e.names[x.a])
			}
		default:
			expr = "(" + opNames[x.op]
			for _, c := range []*Term{x.a, x.b, x.c} {
				if c != nil {
					expr += " " + e.names[c]
				}
			}
			expr += ")"
		}
		nm := fmt.Sprintf("t%d", x.id)
		e.s.Emit(fmt.Sprintf("(define-fun %s () %s %s)", nm, sortStr(x.w), expr))
		e.names[x] = nm
	}
	return e.names[t]
}

// retryFresh re-runs the current scope plus extra in one-shot solver processes.
func (s *Solver) retryFresh(extra string) string {
	f, err := os.CreateTemp("", "gosym-retry-*.smt2")
	if err != nil {
		return "unknown"
	}
	defer os.Remove(f.Name())
	w := bufio.NewWriter(f)
	for _, l := range s.base {
		fmt.Fprintln(w, l)
	}
	for _, l := range s.log {
		fmt.Fprintln(w, l)
	}
	for _, l := range s.scope {
		fmt.Fprintln(w, l)
	}
	if extra != "" {
		fmt.Fprintln(w, "(assert "+extra+")")
	}
	fmt.Fprintln(w, "(check-sat)")
	w.Flush()
	f.Close()
	for _, cmd := range [][]string{{"z3-new", fmt.Sprintf("-T:%d", s.retryMs/1000), f.Name()}, {"z3", fmt.Sprintf("-T:%d", s.retryMs/1000), f.Name()}} {
		out, _ := exec.Command(cmd[0], cmd[1:]...).CombinedOutput()
		txt := strings.TrimSpace(string(out))
		if strings.Contains(txt, "(error") {
			continue
		}
		if txt == "unsat" || txt == "sat" {
			return txt
		}
	}
	return "unknown"
}

// CrossCheck re-runs the current query scope in a fresh process of a second
// solver (z3 4.8.12) and returns its verdict ("sat", "unsat", "unknown").
func (s *Solver) CrossCheck() string {
	f, err := os.CreateTemp("", "gosym-cross-*.smt2")
	if err != nil {
		return "unknown"
	}
	defer os.Remove(f.Name())
	w := bufio.NewWriter(f)
	for _, l := range s.base {
		fmt.Fprintln(w, l)
	}
	for _, l := range s.log {
		fmt.Fprintln(w, l)
	}
	for _, l := range s.scope {
		fmt.Fprintln(w, l)
	}
	fmt.Fprintln(w, "(check-sat)")
	w.Flush()
	f.Close()
	out, _ := exec.Command("z3", "-T:15", f.Name()).CombinedOutput()
	txt := strings.TrimSpace(string(out))
	if strings.Contains(txt, "(error") {
		return "unknown"
	}
	if txt == "sat" || txt == "unsat" {
		return txt
	}
	return "unknown"
}
